#!/bin/sh
# builds the harness once from files on disk (offline)
cd "$(dirname "$0")" || exit 2
export CARGO_NET_OFFLINE=true
mkdir -p /verif/work /verif/replays /verif/evidence
cp /repo/Cargo.lock harness/Cargo.lock.repo 2>/dev/null
(cd harness && cargo build --release --offline) || exit 1
/verif/target/release/verif selftest || exit 1
# the fuzz targets of the thorough tiers (campaign.sh rebuilds them whenever /repo changed); not fatal here
(cd harness && cargo +nightly fuzz build --sanitizer none >/verif/work/fuzz-build.log 2>&1) || echo "note: fuzz targets not built now (thorough tiers build them on first use)" >&2
exit 0
