#!/bin/sh
# builds the harness once from files on disk (offline)
cd "$(dirname "$0")" || exit 2
export CARGO_NET_OFFLINE=true
mkdir -p /verif/work /verif/replays /verif/evidence
cp /repo/Cargo.lock harness/Cargo.lock.repo 2>/dev/null
(cd harness && cargo build --release --offline) || exit 1
/verif/target/release/verif selftest
