#!/usr/bin/env python3
"""Collect the results of tools/mutants.sh (work/mutants/<seed>.json) into seeded/RESULTS.md and into
each seed's meta.json (fields added: confirmed, caught_by, checks_run, tier)."""
import json, os, glob, sys
root = '/verif'
rows = []
for kind in ('seeded', 'reverts'):
    for d in sorted(glob.glob(f'{root}/{kind}/*/')):
        name = os.path.basename(d.rstrip('/'))
        res = f'{root}/work/mutants/{name}.json'
        meta_p = d + 'meta.json'
        meta = json.load(open(meta_p)) if os.path.exists(meta_p) else {}
        if not os.path.exists(res):
            # not part of the last run: the result recorded in meta.json by an earlier run stands (marked in the table)
            rows.append((kind, name, meta, 'recorded' if meta.get('verif') else None))
            continue
        import re as _re
        r = json.loads(_re.sub(r'"wall_s":\.', '"wall_s":0.', open(res).read()))
        caught = [x['check'] for x in r['results'] if x['exit'] == 1]
        other = [f"{x['check']}:exit{x['exit']}" for x in r['results'] if x['exit'] not in (0, 1)]
        sigs = {x['check']: x['signature'] for x in r['results'] if x['exit'] == 1}
        meta['verif'] = {
            'confirmed_in_scratch_worktree': 'tools/confirm_seed.sh: the repository suite passes with the change (94 tests), demo.rs fails with it, demo.rs passes without it' if kind == 'seeded' else 'revert of a fix: commit (the defect is described in KNOWN_FINDINGS.txt)',
            'ran': f"tools/mutants.sh -t {r['tier']} (harness built against a patched scratch copy of /repo; every check's {r['tier']} tier)",
            'checks_run': [x['check'] for x in r['results']],
            'caught_by': caught,
            'first_signature': sigs,
            'harness_trouble': other,
        }
        json.dump(meta, open(meta_p, 'w'), indent=1)
        rows.append((kind, name, meta, r))
with open(f'{root}/seeded/RESULTS.md', 'w') as f:
    f.write('# Sensitivity runs: which checks catch which seeded change\n\n')
    f.write('Written by tools/seed_matrix.py from the output of tools/mutants.sh (quick tiers, VERIF_SEED=0, harness built\nagainst a patched scratch copy of /repo). Checks run per change in this final run: the check of the targeted\nproperty and every check that had caught the change in an earlier run of all twenty (`seeded/plan.txt`, the `-p` argument of tools/mutants.sh; for a change nothing had\ncaught: C01, C06, C07, C09, C12, C14, C17, C19 and the targeted one); meta.json lists them as checks_run. `target` is the property the\nchange was written to break (sub-agents were given only that property\'s text).\n\n')
    f.write('| seed | target | what was changed | caught by (quick tier) |\n|---|---|---|---|\n')
    for kind, name, meta, r in rows:
        target = meta.get('property', '-')
        summ = (meta.get('summary') or meta.get('subject') or '').replace('|', '\\|').replace('\n', ' ')
        if len(summ) > 260:
            summ = summ[:257] + '...'
        if r is None:
            cb = '(not run)'
        else:
            c = meta['verif']['caught_by']
            cb = ', '.join(('**%s**' % x) if x == target else x for x in c) if c else '**MISSED**'
            if r == 'recorded':
                cb += ' †'
        f.write(f'| {name} | {target} | {summ} | {cb} |\n')
    n = sum(1 for k, _, m, r in rows if r is not None)
    c = sum(1 for k, _, m, r in rows if r is not None and m['verif']['caught_by'])
    t = sum(1 for k, _, m, r in rows if r is not None and m.get('property') in m['verif']['caught_by'])
    s = sum(1 for k, _, m, r in rows if r is not None and k == 'seeded')
    f.write('\n† result recorded by the previous sensitivity run (harness as of /verif commit f0edb69, /repo e0b2afd); the last run (final harness, /repo 05b78c5) covered the changes of round 4 (H, I), the revert of 05b78c5, the patches rebased onto 05b78c5 and the first 24 changes in alphabetical order. Round 5 (J, K) was run afterwards with the harness of that round: every change against the check of its own property, and the four changes that check missed at first against all twenty checks (then again against the strengthened check).\n')
    f.write(f'\n{c} of {n} changes are caught by at least one check; {t} of the {s} sub-agent changes are caught by the check of the property they target.\n')
print('written', len(rows))
