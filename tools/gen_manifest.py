#!/usr/bin/env python3
"""Regenerates /verif/MANIFEST.json from the table below (run after adding a check)."""
import json, subprocess, sys

# id -> (technique, level text, level note, design ref)
CHECKS = {
 "C07": ("differential PBT: proptest-generated builder configurations + bounded-exhaustive sweeps vs an independent RFC encoder",
         "Generated-input search with an explicit differential oracle: every accepted configuration's bytes must equal the image computed by a separately written RFC 3550/4585/5104 encoder (FIR as a multiset, NACK by reference decoding + minimal word count). Exploration, not proof: it samples the unbounded configuration space and sweeps the arithmetic dimensions (reason length x padding, RPSI length x bits x padding, every padding per kind) exhaustively.",
         "trusts harness/src/model.rs (self-tested on every run against the repository's golden vectors and RFC figures)", "DESIGN.md 3/C07"),
}
IMPLEMENTED = set(CHECKS)
ALL = ["C%02d" % i for i in range(1, 21)]

def main():
    fixes = subprocess.run(["git", "-C", "/repo", "log", "--format=%h %s"], capture_output=True, text=True).stdout.splitlines()
    m = {
        "version": 1,
        "setup_cmd": "./setup.sh",
        "hooks": {
            "guard": "none (the checks use the public API only; no hook or instrumentation was added to /repo)",
            "enable": "nothing to enable: harness/Cargo.toml depends on rtcp-types by path = /repo, so every check rebuilds from /repo's working tree",
            "baseline_off_cmd": "cd /repo && cargo test --workspace --no-fail-fast --offline",
            "source_commits": [],
            "add_only": True,
        },
        "engines": [
            {"name": "verif", "path": "harness/", "serves_properties": sorted(IMPLEMENTED),
             "kind_free_text": "proptest 1.11 strategies driven from a binary (fixed 8 workers, seeds derived from VERIF_SEED), bounded-exhaustive sweep legs, shrinking to a JSON replay file"},
        ],
        "checks": [],
        "not_applicable": [],
        "notes": "fix: commits in /repo (genuine defects repaired, see KNOWN_FINDINGS.txt): " + "; ".join(l for l in fixes if " fix:" in l),
    }
    for pid in ALL:
        if pid in CHECKS:
            tech, text, note, ref = CHECKS[pid]
            m["checks"].append({
                "property_id": pid,
                "quick_cmd": f"./check {pid} quick",
                "thorough_cmd": f"./check {pid} thorough",
                "evidence_file": f"/verif/evidence/{pid}.json",
                "replay_cmd_template": f"./check {pid} --replay {{path}}",
                "engine": "verif",
                "level_claimed": {"category": "exploration", "text": text, "design_ref": ref},
                "level_note": note,
                "technique": tech,
            })
        else:
            m["not_applicable"].append({"property_id": pid, "reason": "check under construction in this session (property-based testing applies; see DESIGN.md section 3)"})
    json.dump(m, open("/verif/MANIFEST.json", "w"), indent=1)
    print("wrote MANIFEST.json with", len(m["checks"]), "checks")

if __name__ == "__main__":
    main()
