#!/usr/bin/env python3
"""Regenerates /verif/MANIFEST.json from the table below (run after adding a check)."""
import json, subprocess, sys

# id -> (technique, level text, level note, design ref)
M = "trusts the reference model harness/src/model.rs (independent RFC encoder/decoders, self-tested on every run against the repository's golden vectors and RFC figures); exploration samples an unbounded space and never proves absence"
def e(technique, text, ref, note=M):
    return (technique, text, note, ref)
CHECKS = {
 "C01": e("PBT + bounded-exhaustive sweeps over byte strings; oracle = no unwind + iterator step bound; libFuzzer campaign in the thorough tier; every length field with bodies up to 256 KiB; saved regression inputs replayed first",
          "Generated-input search: every public parser, and on every accepted value every accessor, iterator and conversion, is run inside catch_unwind with iterators counted against 5*len+8 steps. Exploration is the right level: the property is a universally quantified robustness claim over all byte strings, decided input by input; sweeps cover all strings up to 2 bytes and the header space exhaustively, generators reach the accepted-by-accident inputs where lazy views fail. The saved failing inputs of earlier defects and of the seeded changes are replayed first in every tier; the thorough tier adds 8 libFuzzer processes whose in-target oracle is this property's oracle.", "DESIGN.md 3/C01",
          "termination inside a single call relies on a watchdog (6 s, confirmed in a fresh subprocess); overflow checks / debug assertions are on, as in a user's dev build"),
 "C02": e("round-trip PBT (proptest specs + exhaustive blocks x padding sweep): build -> parse -> compare every accessor with the configuration; thorough tier adds a coverage-guided libFuzzer campaign (hand-decoded builder configurations -> the same oracle)",
          "Round-trip oracle over generated SR/RR configurations with boundary-biased full-range fields, 0..=31 blocks and all legal paddings; the sweep covers every (block count, padding) pair. The saved failing inputs of earlier defects and of the seeded changes are replayed first in every tier; the thorough tier adds 8 libFuzzer processes whose in-target oracle is this property's oracle.", "DESIGN.md 3/C02"),
 "C03": e("round-trip PBT with alignment sweeps: build -> Sdes::parse -> chunks/items/prefixes compared; thorough tier adds a coverage-guided libFuzzer campaign (hand-decoded builder configurations -> the same oracle)",
          "Round-trip oracle over generated SDES configurations; sweeps enumerate every alignment residue and every distance of the last item from the packet end (two items of lengths 0..=11 x following SSRC with 0..=4 leading zero bytes x padding) and every single-item length. The saved failing inputs of earlier defects and of the seeded changes are replayed first in every tier; the thorough tier adds 8 libFuzzer processes whose in-target oracle is this property's oracle.", "DESIGN.md 3/C03"),
 "C04": e("round-trip PBT + exhaustive reason-length x padding x sources sweep; thorough tier adds a coverage-guided libFuzzer campaign (hand-decoded builder configurations -> the same oracle)",
          "Round-trip oracle for BYE and APP; the BYE sweep (reason length 0..=255 x padding {0,4,8,252} x sources {0,1,31}) is exhaustive for the arithmetic that decides the layout. The saved failing inputs of earlier defects and of the seeded changes are replayed first in every tier; the thorough tier adds 8 libFuzzer processes whose in-target oracle is this property's oracle.", "DESIGN.md 3/C04"),
 "C05": e("round-trip PBT over feedback builders x FCI generators (NACK window boundaries, FIR re-adds, RPSI length x bits sweep); iterator-protocol check (count/last/nth/skip/step_by/fold/find/...) on the decoded entries; thorough tier adds a coverage-guided libFuzzer campaign (hand-decoded builder configurations -> the same oracle)",
          "Round-trip oracle: builder bytes -> typed parser -> parse_fci::<F> compared with the configured set / map / list / bit string (RPSI as bits). Two known findings (empty SLI / FIR list) are keyed on their exact signatures. The saved failing inputs of earlier defects and of the seeded changes are replayed first in every tier; the thorough tier adds 8 libFuzzer processes whose in-target oracle is this property's oracle.", "DESIGN.md 3/C05"),
 "C06": e("PBT over (configuration, construction path incl. measure-then-configure, buffer length) incl. invalid configurations; oracle = agreement of calculate_size and write_into for every buffer length 0..=n+8; stateful leg: generated use histories (measure / write / too-short write) on one builder object; largest-packet leg (65536 / 65537 words); thorough tier adds a coverage-guided libFuzzer campaign (hand-decoded builder configurations -> the same oracle)",
          "For every generated configuration the announced size is compared with write_into on every buffer length from 0 to n+8 (sampled above 160 bytes); sweeps: every padding byte per kind, RPSI length x bits, every feedback x FCI pairing, SDES chunk/item builders. The saved failing inputs of earlier defects and of the seeded changes are replayed first in every tier; the thorough tier adds 8 libFuzzer processes whose in-target oracle is this property's oracle.", "DESIGN.md 3/C06"),
 "C07": e("differential PBT: proptest-generated builder configurations (every construction path, exact buffer and buffer with slack) + bounded-exhaustive sweeps vs an independent RFC encoder; stateful leg: the image after a generated use history (repeated and failed writes) on one builder object; thorough tier adds a coverage-guided libFuzzer campaign (hand-decoded builder configurations -> the same oracle)",
          "Every accepted configuration's bytes must equal the image computed by a separately written RFC 3550/4585/5104 encoder (FIR as a multiset, NACK by reference decoding + minimal word count). Sees symmetric writer/parser errors that round trips cannot. The saved failing inputs of earlier defects and of the seeded changes are replayed first in every tier; the thorough tier adds 8 libFuzzer processes whose in-target oracle is this property's oracle.", "DESIGN.md 3/C07"),
 "C08": e("PBT + exhaustive header-space sweep + every-length-field sweep (bodies up to 512 KiB) over byte strings; oracle = framing predicate recomputed independently on every accepted string; thorough tier adds a coverage-guided libFuzzer campaign (raw bytes -> the same oracle)",
          "Whenever any typed parser, the generic parser or the unknown parser accepts a generated string, the framing conditions and header accessor values are recomputed from the bytes by the reference; the header-space sweep (1.4 M strings x 9 parsers in quick) is exhaustive over version x P x count x PT x length field x length x last byte. The saved failing inputs of earlier defects and of the seeded changes are replayed first in every tier; the thorough tier adds 8 libFuzzer processes whose in-target oracle is this property's oracle.", "DESIGN.md 3/C08"),
 "C09": e("differential PBT: accessors vs reference reads at RFC offsets, pointer-equality for returned slices; reference-encoded packets must be accepted; thorough tier adds a coverage-guided libFuzzer campaign (raw bytes -> the same oracle)",
          "Each accessor of every accepted string is compared with a big-endian read at the RFC offset; returned slices must be sub-slices of the input at the expected offset (pointer + length). The saved failing inputs of earlier defects and of the seeded changes are replayed first in every tier; the thorough tier adds 8 libFuzzer processes whose in-target oracle is this property's oracle.", "DESIGN.md 3/C09"),
 "C10": e("bounded-exhaustive + token-level PBT against a three-valued reference tokeniser (must-accept / must-reject / either); thorough tier adds a coverage-guided libFuzzer campaign (raw bytes -> the same oracle)",
          "6.7 M exhaustive short bodies (16.7 M more in thorough) plus token-level defect injection and reference-encoded well-formed packets; the three-valued oracle avoids false alarms on inputs the RFC leaves open. The saved failing inputs of earlier defects and of the seeded changes are replayed first in every tier; the thorough tier adds 8 libFuzzer processes whose in-target oracle is this property's oracle.", "DESIGN.md 3/C10"),
 "C11": e("model-based PBT over datagrams x next() call histories + exhaustive length-chain sweep + datagrams beyond 64 KiB; reference tiling model; iterator-protocol check (nth / skip / step_by / count / last must agree with the next() sequence); thorough tier adds a coverage-guided libFuzzer campaign (raw bytes -> the same oracle)",
          "Compound::parse acceptance must equal the reference tiling; a generated history of next() calls (including calls after exhaustion) is compared step by step with Packet::parse of each tile. The saved failing inputs of earlier defects and of the seeded changes are replayed first in every tier; the thorough tier adds 8 libFuzzer processes whose in-target oracle is this property's oracle.", "DESIGN.md 3/C11"),
 "C12": e("differential PBT: Packet::parse vs typed parsers, full 8x7x3 (+7x3, + Packet::Unknown of any type byte) conversion matrix; every-length-field sweep; thorough tier adds a coverage-guided libFuzzer campaign (raw bytes -> the same oracle)",
          "Generic dispatch and every conversion path are compared with the typed parser on the same bytes; the evidence lists the matrix cells hit. The saved failing inputs of earlier defects and of the seeded changes are replayed first in every tier; the thorough tier adds 8 libFuzzer processes whose in-target oracle is this property's oracle.", "DESIGN.md 3/C12"),
 "C13": e("metamorphic PBT: parse(p) vs parse(pad(p, n)) for all 63 legal paddings per generated base packet; thorough tier adds a coverage-guided libFuzzer campaign (hand-decoded builder configurations -> the same oracle)",
          "Metamorphic relation with an independently implemented RFC 3550 padding transform; all 63 paddings are swept for every generated base packet (from the reference encoder and from the crate's builders). The saved failing inputs of earlier defects and of the seeded changes are replayed first in every tier; the thorough tier adds 8 libFuzzer processes whose in-target oracle is this property's oracle.", "DESIGN.md 3/C13"),
 "C14": e("PBT over member lists (nested compounds, third-party writers, invalid members, padding anywhere); oracle = concatenation + parse-back; list leg with members of exactly 65536 words and > 64 KiB compounds; thorough tier adds a coverage-guided libFuzzer campaign (hand-decoded builder configurations -> the same oracle)",
          "Success criterion, size == sum, bytes == concatenation of the members' own images and parse-back are checked for generated member lists; all pairs of kinds x padding positions are swept. The saved failing inputs of earlier defects and of the seeded changes are replayed first in every tier; the thorough tier adds 8 libFuzzer processes whose in-target oracle is this property's oracle.", "DESIGN.md 3/C14"),
 "C15": e("differential PBT + exhaustive single-word sweeps against reference FCI decoders; kind/format gating matrix; lists beyond 64 KiB; iterator-protocol check on the entry iterators; thorough tier adds a coverage-guided libFuzzer campaign (raw bytes -> the same oracle)",
          "Arbitrary FCI bytes under every kind x format; NACK single words swept over all masks x 8 PIDs and all PIDs x 8 masks, SLI fields exhaustively + 2^20 words, RPSI PB x length. The saved failing inputs of earlier defects and of the seeded changes are replayed first in every tier; the thorough tier adds 8 libFuzzer processes whose in-target oracle is this property's oracle.", "DESIGN.md 3/C15"),
 "C16": e("PBT over possibly-unrepresentable configurations vs an independent rule list; per-limit sweeps from both sides and far above (8-bit aliasing: 256+k); total-size boundary leg; thorough tier adds a coverage-guided libFuzzer campaign (hand-decoded builder configurations -> the same oracle)",
          "calculate_size must fail exactly when the independent representability predicate says so, with an error naming a violated rule and value. One root cause (no total-size limit) is recorded as five known findings keyed on exact signatures. The saved failing inputs of earlier defects and of the seeded changes are replayed first in every tier; the thorough tier adds 8 libFuzzer processes whose in-target oracle is this property's oracle.", "DESIGN.md 3/C16"),
 "C17": e("PBT with two complementary buffer prefills; oracle = written bytes independent of prefill, bytes beyond n and failed writes untouched; stateful leg: generated use histories on one builder object; thorough tier adds a coverage-guided libFuzzer campaign (hand-decoded builder configurations -> the same oracle)",
          "Two prefills that differ in every byte expose any byte a writer leaves undefined or touches outside its claim, for accepted and rejected configurations and short buffers. The saved failing inputs of earlier defects and of the seeded changes are replayed first in every tier; the thorough tier adds 8 libFuzzer processes whose in-target oracle is this property's oracle.", "DESIGN.md 3/C17"),
 "C18": e("PBT + exhaustive header-space sweep; oracle = truthfulness predicates and exact error predictions recomputed from the bytes; thorough tier adds a coverage-guided libFuzzer campaign (raw bytes -> the same oracle)",
          "Every error returned by any parser on generated strings is checked against the input (version, type, expected vs actual ordering) and against two exact predictions (short input, length mismatch). The saved failing inputs of earlier defects and of the seeded changes are replayed first in every tier; the thorough tier adds 8 libFuzzer processes whose in-target oracle is this property's oracle.", "DESIGN.md 3/C18"),
 "C19": e("PBT over a const-generic family of out-of-crate packet types built on the public helpers; helper contracts swept over padding x count x family x buffer sizes; thorough tier adds a coverage-guided libFuzzer campaign (hand-decoded builder configurations -> the same oracle)",
          "A downstream-style packet family (6 type/min-length pairs) exercises check_packet, the header/padding writers and the unknown builder; fields must survive compound-parse -> Unknown -> try_as. The saved failing inputs of earlier defects and of the seeded changes are replayed first in every tier; the thorough tier adds 8 libFuzzer processes whose in-target oracle is this property's oracle.", "DESIGN.md 3/C19"),
 "C20": e("stateful PBT: builder call histories (choice bytes interpreted call by call, shrinking to the canonical sequence; setters permuted / overwritten, owned variants, size queries on the partially configured builder at history-chosen points) vs canonical construction of the final configuration; one borrowed FCI builder shared by two packets written in generated order; thorough tier adds a coverage-guided libFuzzer campaign (hand-decoded builder configurations -> the same oracle)",
          "Histories permute setters, overwrite them with junk first, repeat adds and switch between owned/borrowed API variants and wrappers at arbitrary points; output must equal the canonical construction. The saved failing inputs of earlier defects and of the seeded changes are replayed first in every tier; the thorough tier adds 8 libFuzzer processes whose in-target oracle is this property's oracle.", "DESIGN.md 3/C20",
          "the canonical construction is itself checked against the RFC image by C07"),
}
IMPLEMENTED = set(CHECKS)
ALL = ["C%02d" % i for i in range(1, 21)]

def main():
    fixes = subprocess.run(["git", "-C", "/repo", "log", "--format=%h %s"], capture_output=True, text=True).stdout.splitlines()
    m = {
        "version": 1,
        "setup_cmd": "./setup.sh",
        "hooks": {
            "guard": "none (the checks use the public API only; no hook or instrumentation was added to /repo)",
            "enable": "nothing to enable: harness/Cargo.toml depends on rtcp-types by path = /repo, so every check rebuilds from /repo's working tree",
            "baseline_off_cmd": "cd /repo && cargo test --workspace --no-fail-fast --offline",
            "source_commits": [],
            "add_only": True,
        },
        "engines": [
            {"name": "verif", "path": "harness/", "serves_properties": sorted(IMPLEMENTED),
             "kind_free_text": "proptest 1.11 strategies driven from a binary (fixed 8 workers, seeds derived from VERIF_SEED), bounded-exhaustive sweep legs, a regression corpus of saved failing cases, shrinking to a JSON replay file"},
            {"name": "libfuzzer", "path": "harness/fuzz/", "serves_properties": sorted(IMPLEMENTED),
             "kind_free_text": "cargo-fuzz 0.13 / libFuzzer targets `raw` (byte-level properties) and `spec` (hand-written structured decoder -> builder configuration); the property's own oracle runs inside the target; harness/fuzz/campaign.sh runs 8 fixed-work processes in the thorough tier and converts any crash artefact into a replay file"},
        ],
        "checks": [],
        "not_applicable": [],
        "notes": "fix: commits in /repo (genuine defects repaired, see KNOWN_FINDINGS.txt): " + "; ".join(l for l in fixes if " fix:" in l),
    }
    for pid in ALL:
        if pid in CHECKS:
            tech, text, note, ref = CHECKS[pid]
            m["checks"].append({
                "property_id": pid,
                "quick_cmd": f"./check {pid} quick",
                "thorough_cmd": f"./check {pid} thorough",
                "evidence_file": f"/verif/evidence/{pid}.json",
                "replay_cmd_template": f"./check {pid} --replay {{path}}",
                "engine": "verif",
                "level_claimed": {"category": "exploration", "text": text, "design_ref": ref},
                "level_note": note,
                "technique": tech,
            })
        else:
            m["not_applicable"].append({"property_id": pid, "reason": "no check registered"})
    json.dump(m, open("/verif/MANIFEST.json", "w"), indent=1)
    print("wrote MANIFEST.json with", len(m["checks"]), "checks")

if __name__ == "__main__":
    main()
