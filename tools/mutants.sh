#!/bin/sh
# usage: tools/mutants.sh [-t quick|thorough] [-j lanes] [-c "C01 C05 ..."] [-p plan] <seed dir>...
#   -p plan: a file with lines "<seed> <check> <check> ..." naming the checks to run for that seed (default: -c / all)
# Sensitivity run: for every seeded change (a directory with patch.diff) build the harness against a
# patched scratch copy of /repo and run the quick tier of every check (or those named with -c) on
# it. Nothing in /repo or /verif/evidence is touched: each lane has its own worktree of /repo, copy
# of harness/, target dir and VERIF_ROOT under /tmp/mt.<pid>/lane<k>, all removed at the end.
# Output: one line per seed on stdout  "<seed> caught_by=<ids> | missed"  and a JSON summary at
# /verif/work/mutants/<seed>.json
TIER=quick; LANES=3; CHECKS="C01 C02 C03 C04 C05 C06 C07 C08 C09 C10 C11 C12 C13 C14 C15 C16 C17 C18 C19 C20"
PLAN=""
while getopts t:j:c:p: o; do case $o in t) TIER=$OPTARG;; j) LANES=$OPTARG;; c) CHECKS=$OPTARG;; p) PLAN=$OPTARG;; *) exit 2;; esac; done
shift $((OPTIND-1))
[ $# -gt 0 ] || { echo "no seed directories given" >&2; exit 2; }
export CARGO_NET_OFFLINE=true
ROOT=/tmp/mt.$$; mkdir -p "$ROOT" /verif/work/mutants
cleanup() { for k in $(seq 1 $LANES); do git -C /repo worktree remove --force "$ROOT/lane$k/repo" >/dev/null 2>&1; done; git -C /repo worktree prune; rm -rf "$ROOT"; }
trap cleanup EXIT INT TERM
i=0; for s in "$@"; do i=$((i+1)); k=$(( (i-1) % LANES + 1 )); echo "$(cd "$s" && pwd)" >> "$ROOT/queue$k"; done
lane() {
    k=$1; L="$ROOT/lane$k"; mkdir -p "$L"
    [ -f "$ROOT/queue$k" ] || return 0
    git -C /repo worktree add --detach "$L/repo" HEAD >/dev/null 2>&1 || { echo "lane $k: cannot add worktree" >&2; return 1; }
    rsync -a --exclude target --exclude fuzz /verif/harness/ "$L/harness/"
    sed -i "s#path = \"/repo\"#path = \"$L/repo\"#" "$L/harness/Cargo.toml"
    printf '[net]\noffline = true\n[build]\ntarget-dir = "%s/target"\n' "$L" > "$L/harness/.cargo/config.toml"
    cp /verif/KNOWN_FINDINGS.txt "$L/"
    while read -r S; do
        name=$(basename "$S")
        git -C "$L/repo" checkout -q -- . ; git -C "$L/repo" clean -fdq
        if ! git -C "$L/repo" apply "$S/patch.diff" 2>/dev/null; then echo "$name patch-does-not-apply"; continue; fi
        if ! (cd "$L/harness" && cargo build --release --offline >"$L/build.log" 2>&1); then echo "$name harness-build-failed"; tail -5 "$L/build.log"; continue; fi
        caught=""; js=""
        RUN="$CHECKS"
        if [ -n "$PLAN" ]; then P=$(grep "^$name " "$PLAN" | cut -d' ' -f2-); [ -n "$P" ] && RUN="$P"; fi
        for id in $RUN; do
            rm -rf "$L/evidence" "$L/replays"
            t0=$(date +%s.%N)
            out=$(VERIF_ROOT="$L" "$L/target/release/verif" "$id" "$TIER" 2>"$L/err.log"); rc=$?
            t1=$(date +%s.%N)
            sig=$(grep -m1 '^signature:' "$L/err.log" | sed 's/^signature: *//; s/"/\\"/g')
            if [ $rc -eq 1 ]; then
                caught="$caught $id"
                mkdir -p "/verif/work/mutants/$name"
                r=$(ls "$L/replays"/*.json 2>/dev/null | head -1); [ -n "$r" ] && cp "$r" "/verif/work/mutants/$name/$id.json"
            fi
            js="$js{\"check\":\"$id\",\"exit\":$rc,\"wall_s\":$(echo "$t1 $t0" | awk '{printf "%.3f", $1 - $2}'),\"signature\":\"$sig\"},"
        done
        printf '{"seed":"%s","tier":"%s","results":[%s]}\n' "$name" "$TIER" "${js%,}" > "/verif/work/mutants/$name.json"
        if [ -n "$caught" ]; then echo "$name caught_by=$(echo $caught | tr ' ' ',')"; else echo "$name missed"; fi
    done < "$ROOT/queue$k"
}
for k in $(seq 1 $LANES); do lane $k & done
wait
