#!/bin/sh
# usage: tools/confirm_seed.sh <dir with patch.diff + demo.rs>
# Confirms, in a scratch worktree of /repo (removed afterwards), that the seeded change
#   (1) applies and compiles, (2) passes the repository's own test suite, (3) makes demo.rs fail,
#   (4) and that demo.rs passes on the unchanged tree.   Prints one line: CONFIRMED / REJECTED <why>
D=$(cd "$1" && pwd) || exit 2
W=$(mktemp -d /tmp/confirm.XXXXXX)
export CARGO_NET_OFFLINE=true
trap 'git -C /repo worktree remove --force "$W/repo" >/dev/null 2>&1; rm -rf "$W"' EXIT
git -C /repo worktree add --detach "$W/repo" HEAD >/dev/null 2>&1 || { echo "REJECTED worktree"; exit 2; }
cd "$W/repo" || exit 2
export CARGO_TARGET_DIR="$W/target"
cp "$D/demo.rs" tests/demo_seed.rs
if ! cargo test --offline --test demo_seed >"$W/pristine.log" 2>&1; then echo "REJECTED demo fails on the unchanged tree"; tail -20 "$W/pristine.log"; exit 1; fi
if ! git apply "$D/patch.diff" 2>"$W/apply.log"; then echo "REJECTED patch does not apply"; cat "$W/apply.log"; exit 1; fi
if cargo test --offline --test demo_seed >"$W/patched.log" 2>&1; then echo "REJECTED demo passes with the change"; exit 1; fi
grep -q "test result: FAILED" "$W/patched.log" || { echo "REJECTED demo did not run (compile error?)"; tail -20 "$W/patched.log"; exit 1; }
rm tests/demo_seed.rs
if ! cargo test --workspace --no-fail-fast --offline >"$W/suite.log" 2>&1; then echo "REJECTED the repository's suite fails with the change"; grep -E "^test .*FAILED|panicked" "$W/suite.log" | head; exit 1; fi
P=$(grep -E "^test result: ok" "$W/suite.log" | sed -E 's/.* ([0-9]+) passed.*/\1/' | paste -sd+ | bc)
echo "CONFIRMED suite_passed=$P demo_fails_with_change=yes demo_passes_without=yes"
