#!/bin/sh
# usage: tools/run_all.sh [quick|thorough] [seed]   -- runs every check, prints one line each
cd /verif || exit 2
TIER=${1:-quick}; export VERIF_SEED=${2:-0}
rc=0
for i in 01 02 03 04 05 06 07 08 09 10 11 12 13 14 15 16 17 18 19 20; do
    out=$(./check C$i $TIER 2>/dev/null); r=$?
    echo "C$i exit=$r $(echo "$out" | grep -E '^(OK|VIOLATION)' | head -1) known=$(echo "$out" | grep -c '^KNOWN-FINDING')"
    [ $r -ne 0 ] && rc=1
done
exit $rc
