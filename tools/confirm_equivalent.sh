#!/bin/sh
# usage: tools/confirm_equivalent.sh <dir with patch.diff>
# A property-preserving change must at least apply, compile and pass the repository's own suite.
D=$(cd "$1" && pwd) || exit 2
W=$(mktemp -d /tmp/confirmeq.XXXXXX)
export CARGO_NET_OFFLINE=true
trap 'git -C /repo worktree remove --force "$W/repo" >/dev/null 2>&1; rm -rf "$W"' EXIT
git -C /repo worktree add --detach "$W/repo" HEAD >/dev/null 2>&1 || { echo "REJECTED worktree"; exit 2; }
cd "$W/repo" || exit 2
export CARGO_TARGET_DIR="$W/target"
git apply "$D/patch.diff" 2>/dev/null || { echo "REJECTED patch does not apply"; exit 1; }
if ! cargo test --workspace --no-fail-fast --offline >"$W/suite.log" 2>&1; then echo "REJECTED the repository's suite fails with the change"; grep -E "^test .*FAILED|panicked|^error" "$W/suite.log" | head -5; exit 1; fi
P=$(grep -E "^test result: ok" "$W/suite.log" | sed -E 's/.* ([0-9]+) passed.*/\1/' | paste -sd+ | bc)
echo "CONFIRMED suite_passed=$P"
