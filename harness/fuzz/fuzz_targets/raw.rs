#![no_main]
//! libFuzzer target, decoding "raw" (see harness/src/fuzz.rs). The property is chosen by the
//! environment variable VERIF_PROP; the oracle is the property's own oracle from the harness, so a
//! crash artefact is a violation of that property (known findings are tolerated and counted).
use libfuzzer_sys::fuzz_target;
use rtcp_verif::fuzz::{Mode, Session};
use std::cell::RefCell;

thread_local! {
    static SESSION: RefCell<Option<Session>> = const { RefCell::new(None) };
}

fuzz_target!(|data: &[u8]| {
    SESSION.with(|s| {
        let mut s = s.borrow_mut();
        if s.is_none() {
            // after libFuzzer's own hook (which aborts on any panic): ours records panics raised inside
            // guarded calls into rtcp-types and hands everything else to libFuzzer's
            rtcp_verif::run::install_panic_hook();
            let id = std::env::var("VERIF_PROP").expect("set VERIF_PROP=<C01..C20>");
            *s = Some(Session::new(&id, Mode::Raw).expect("this property has no decoding of this kind"));
        }
        let sess = s.as_mut().unwrap();
        if let Err(v) = sess.judge(data) {
            eprintln!("FUZZ-VIOLATION {}", serde_json::to_string(&v).unwrap());
            std::process::abort();
        }
    });
});
