#!/bin/sh
# usage: harness/fuzz/campaign.sh <C01..C20>
# The coverage-guided part of a property's thorough tier (called by ./check <id> thorough after the
# PBT/sweep part held). Eight libFuzzer processes (fixed work: -runs, seeds derived from VERIF_SEED;
# even-numbered ones start from the generated seed corpus, odd-numbered ones from an empty corpus)
# run the fuzz target whose oracle IS the property's oracle. Any crash artefact is converted into a
# replay file and reported as VIOLATION; a timeout/oom artefact is "inconclusive" (exit 2) - except
# for C01, where a reproducible stall is the violation. Statistics are merged into the evidence file.
ID="$1"
[ -n "$ID" ] || { echo "usage: campaign.sh <id>" >&2; exit 2; }
SEED=${VERIF_SEED:-0}
VERIF=/verif/target/release/verif
cd /verif/harness || exit 2
export CARGO_NET_OFFLINE=true
mkdir -p /verif/work
if ! cargo build --release --offline >/verif/work/build.log 2>&1; then
    echo "harness build against /repo failed (exit 2):" >&2; tail -30 /verif/work/build.log >&2; exit 2
fi
MODE=$($VERIF "$ID" --fuzz-mode) || { echo "property $ID has no fuzz decoding" >&2; exit 2; }
mkdir -p /verif/work
if ! cargo +nightly fuzz build --sanitizer none >/verif/work/fuzz-build.log 2>&1; then
    echo "fuzz target build against /repo failed (exit 2):" >&2; tail -30 /verif/work/fuzz-build.log >&2; exit 2
fi
BIN=/verif/target/x86_64-unknown-linux-gnu/release/$MODE
[ -x "$BIN" ] || { echo "no fuzz binary $BIN" >&2; exit 2; }
W=/verif/work/fuzz/$ID
rm -rf "$W"; mkdir -p "$W/seeds" "$W/art" "$W/empty"
$VERIF "$ID" --write-seeds "$MODE" "$W/seeds" 256 >/dev/null || exit 2
K=${VERIF_FUZZ_PROCS:-8}
if [ "$MODE" = raw ]; then RUNS=${VERIF_FUZZ_RUNS:-2000000}; MAXLEN=512; else RUNS=${VERIF_FUZZ_RUNS:-600000}; MAXLEN=4096; fi
# C13 evaluates 63 paddings per case: a tenth of the runs is the same work
if [ "$ID" = C13 ] && [ -z "$VERIF_FUZZ_RUNS" ]; then RUNS=60000; fi
# wall-clock cap per process: only a safety net for a slow machine - it ends the exploration early
# (reported in the statistics), it is never a verdict
CAP=${VERIF_FUZZ_CAP_S:-420}
T0=$(date +%s.%N)
k=0
while [ $k -lt "$K" ]; do
    mkdir -p "$W/c$k"
    if [ $((k % 2)) -eq 0 ]; then EXTRA="$W/seeds"; else EXTRA="$W/empty"; fi
    ML=$MAXLEN
    # C01 quantifies over strings of any length: one process explores the > 64 KiB regime
    R=$RUNS
    if [ "$ID" = C01 ] && [ $k -eq 6 ]; then ML=70000; R=$((RUNS / 10)); fi
    VERIF_PROP="$ID" "$BIN" "$W/c$k" "$EXTRA" -runs="$R" -seed=$((SEED * K + k + 1)) -len_control=0 -max_len=$ML \
        -max_total_time="$CAP" -timeout=25 -rss_limit_mb=4096 -artifact_prefix="$W/art/p$k-" -print_final_stats=1 >"$W/log$k" 2>&1 &
    k=$((k + 1))
done
wait
T1=$(date +%s.%N)
EXECS=0; COV=0; FT=0; CORP=0; NT=0
k=0
while [ $k -lt "$K" ]; do
    e=$(grep -a 'stat::number_of_executed_units' "$W/log$k" | awk '{print $2}' | tail -1); EXECS=$((EXECS + ${e:-0}))
    c=$(grep -a -o 'cov: [0-9]*' "$W/log$k" | tail -1 | awk '{print $2}'); [ "${c:-0}" -gt "$COV" ] && COV=$c
    f=$(grep -a -o 'ft: [0-9]*' "$W/log$k" | tail -1 | awk '{print $2}'); [ "${f:-0}" -gt "$FT" ] && FT=$f
    n=$(ls "$W/c$k" | wc -l); CORP=$((CORP + n))
    k=$((k + 1))
done
# how many of the inputs kept by the fuzzer are non-trivial by the property's rule (measured, in-process)
CORPLINE=$($VERIF "$ID" --corpus "$MODE" "$W"/c[0-9]* 2>/dev/null | grep '^OK') && NT=$(echo "$CORPLINE" | sed -E 's/.*nontrivial=([0-9]+).*/\1/')
cat >"$W/stats.json" <<EOF
{"engine":"libFuzzer (cargo-fuzz 0.13, sanitizer none, debug assertions on)","target":"$MODE","processes":$K,"runs_per_process":$RUNS,
 "seed_base":$SEED,"execs":$EXECS,"max_len":$MAXLEN,"edge_coverage_max":$COV,"features_max":$FT,"corpus_files_kept":$CORP,
 "corpus_files_nontrivial":${NT:-0},"wall_clock_cap_s":$CAP,"seeded_processes":"even","empty_corpus_processes":"odd","wall_s":$(echo "$T1 - $T0" | bc)}
EOF
$VERIF "$ID" --merge-fuzz "$W/stats.json" || exit 2
RC=0
for a in "$W"/art/*; do
    [ -f "$a" ] || continue
    case "$(basename "$a")" in
        *crash-*)
            $VERIF "$ID" --fuzz-artifact "$MODE" "$a" >"$W/convert.out" 2>&1; r=$?
            if [ $r -eq 1 ]; then
                [ $RC -eq 1 ] || cat "$W/convert.out"   # one VIOLATION line per campaign; the other artefacts stay in work/
                RC=1
            else
                # the target aborted but the same input holds in a fresh process: not believed, not hidden
                echo "fuzz campaign of $ID: artefact $(basename "$a") does not reproduce (exit 2)" >&2
                [ $RC -eq 0 ] && RC=2
            fi ;;
        *timeout-*|*oom-*)
            if [ "$ID" = C01 ] && timeout 60 $VERIF "$ID" --fuzz-artifact "$MODE" "$a" >/dev/null 2>&1; [ $? -eq 124 ]; then
                R=/verif/replays/C01-fuzz-stall-$(basename "$a").json
                printf '{"property":"C01","leg":"generated-strings","case":"%s","failure":{"signature":"hang:fuzz","detail":"one input stalls for more than 60 s"}}\n' "$(xxd -p "$a" | tr -d '\n')" >"$R"
                echo "VIOLATION property=C01 replay=$R"; RC=1
            else
                echo "fuzz campaign of $ID left $(basename "$a"): inconclusive" >&2; [ $RC -eq 0 ] && RC=2
            fi ;;
    esac
done
if [ $RC -eq 0 ]; then
    echo "OK property=$ID fuzz target=$MODE execs=$EXECS edge_coverage=$COV corpus=$CORP nontrivial_in_corpus=${NT:-0} wall_s=$(echo "$T1 - $T0" | bc)"
fi
exit $RC
