use rtcp_verif::oracle;
use rtcp_verif::run::{self, Tier};

fn usage() -> ! {
    eprintln!("usage: verif <C01..C20> [quick|thorough] | verif <id> --replay <path> | verif selftest");
    std::process::exit(2)
}

fn main() {
    let args: Vec<String> = std::env::args().skip(1).collect();
    if args.is_empty() {
        usage();
    }
    run::install_panic_hook();
    let bad = rtcp_verif::selftest::run();
    if !bad.is_empty() {
        eprintln!("HARNESS SELF-TEST FAILED (the reference model disagrees with the golden vectors; this is a broken harness, not a violation):");
        for b in &bad {
            eprintln!("  {b}");
        }
        std::process::exit(2);
    }
    if args[0] == "selftest" {
        println!("self-test ok: {} vectors", rtcp_verif::selftest::vectors().len());
        return;
    }
    let id = args[0].as_str();
    // fuzzing glue (used by fuzz/campaign.sh): artefact -> replay file, corpus replay, evidence merge
    if args.len() >= 4 && (args[1] == "--fuzz-artifact" || args[1] == "--corpus") {
        let mode = match args[2].as_str() {
            "raw" => rtcp_verif::fuzz::Mode::Raw,
            "spec" => rtcp_verif::fuzz::Mode::Spec,
            _ => usage(),
        };
        if args[1] == "--fuzz-artifact" {
            std::process::exit(rtcp_verif::fuzz::convert_artifact(id, mode, &args[3]));
        }
        match rtcp_verif::fuzz::run_corpus(id, mode, &args[3..]) {
            Err(e) => {
                eprintln!("{e}");
                std::process::exit(2);
            }
            Ok((files, nontrivial, known, None)) => {
                println!("OK property={id} corpus files={files} nontrivial={nontrivial} known_finding_hits={known}");
                std::process::exit(0);
            }
            Ok((_, _, _, Some((file, _)))) => std::process::exit(rtcp_verif::fuzz::convert_artifact(id, mode, &file)),
        }
    }
    if args.len() >= 4 && args[1] == "--write-seeds" {
        let mode = match args[2].as_str() {
            "raw" => rtcp_verif::fuzz::Mode::Raw,
            "spec" => rtcp_verif::fuzz::Mode::Spec,
            _ => usage(),
        };
        let n = args.get(4).and_then(|s| s.parse().ok()).unwrap_or(200);
        std::process::exit(rtcp_verif::fuzz::write_seeds(id, mode, &args[3], n));
    }
    if args.len() >= 2 && args[1] == "--fuzz-mode" {
        match rtcp_verif::fuzz::mode_of(id) {
            Some(rtcp_verif::fuzz::Mode::Raw) => println!("raw"),
            Some(rtcp_verif::fuzz::Mode::Spec) => println!("spec"),
            None => std::process::exit(2),
        }
        return;
    }
    if args.len() >= 3 && args[1] == "--merge-fuzz" {
        std::process::exit(run::merge_fuzz_evidence(id, &args[2]));
    }
    let mut tier = match std::env::var("VERIF_TIER").ok().as_deref() {
        Some("thorough") => Tier::Thorough,
        _ => Tier::Quick,
    };
    let mut replay: Option<String> = None;
    let mut i = 1;
    while i < args.len() {
        match args[i].as_str() {
            "quick" => tier = Tier::Quick,
            "thorough" => tier = Tier::Thorough,
            "--tier" => {
                i += 1;
                tier = match args.get(i).map(|s| s.as_str()) {
                    Some("thorough") => Tier::Thorough,
                    Some("quick") => Tier::Quick,
                    _ => usage(),
                }
            }
            "--replay" => {
                i += 1;
                replay = Some(args.get(i).cloned().unwrap_or_else(|| usage()));
            }
            _ => usage(),
        }
        i += 1;
    }
    let check = match oracle::check_for(id, tier) {
        Some(c) => c,
        None => {
            eprintln!("no check for property {id}");
            std::process::exit(2);
        }
    };
    // a panic of the harness itself (outside the guarded calls into rtcp-types) is harness trouble: exit 2
    let code = std::panic::catch_unwind(std::panic::AssertUnwindSafe(|| match replay {
        Some(p) => run::replay_file(&check, &p),
        None => run::run_check(&check, tier, run::seed_from_env()),
    }))
    .unwrap_or_else(|_| {
        eprintln!("the harness itself panicked: exit 2 (not a violation)");
        2
    });
    std::process::exit(code);
}
