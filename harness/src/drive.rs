//! spec -> rtcp-types builder calls; parsed view -> observed values.
//! This is the only place (with third_party.rs and the oracles) that calls into the crate.

use crate::model::*;
use crate::run::{guard, no_panic, step, Caught, Failure};
use crate::third_party::CustomBuilder;
use crate::with_family;
use rtcp_types::prelude::*;
use rtcp_types::*;
use serde::{Deserialize, Serialize};
use serde_json::{json, Value};

// ---------------------------------------------------------------------------------------------
// write errors, mirrored so that they can be cloned / compared / stored
// ---------------------------------------------------------------------------------------------

#[derive(Clone, Debug, PartialEq, Eq, Hash, Serialize, Deserialize)]
pub enum WErr {
    OutputTooSmall(usize),
    InvalidPadding { padding: u8 },
    AppSubtypeOutOfRange { subtype: u8, max: u8 },
    InvalidName,
    DataLen32bitMultiple(usize),
    TooManySources { count: usize, max: u8 },
    ReasonLenTooLarge { len: usize, max: u8 },
    CumulativeLostTooLarge { value: u32, max: u32 },
    TooManyReportBlocks { count: usize, max: u8 },
    TooManySdesChunks { count: usize, max: u8 },
    SdesValueTooLarge { len: usize, max: u8 },
    SdesPrivPrefixTooLarge { len: usize, max: u8 },
    CountOutOfRange { count: u8, max: u8 },
    NonLastCompoundPacketPadding,
    MissingFci,
    TooManyNack,
    FciWrongFeedbackPacketType,
    PayloadTypeInvalid,
    PaddingBitsTooLarge,
    TooManyFir,
    Other(String),
}

impl From<&RtcpWriteError> for WErr {
    #[allow(unreachable_patterns)]
    fn from(e: &RtcpWriteError) -> Self {
        use RtcpWriteError as E;
        match e {
            E::OutputTooSmall(n) => WErr::OutputTooSmall(*n),
            E::InvalidPadding { padding } => WErr::InvalidPadding { padding: *padding },
            E::AppSubtypeOutOfRange { subtype, max } => WErr::AppSubtypeOutOfRange { subtype: *subtype, max: *max },
            E::InvalidName => WErr::InvalidName,
            E::DataLen32bitMultiple(n) => WErr::DataLen32bitMultiple(*n),
            E::TooManySources { count, max } => WErr::TooManySources { count: *count, max: *max },
            E::ReasonLenTooLarge { len, max } => WErr::ReasonLenTooLarge { len: *len, max: *max },
            E::CumulativeLostTooLarge { value, max } => WErr::CumulativeLostTooLarge { value: *value, max: *max },
            E::TooManyReportBlocks { count, max } => WErr::TooManyReportBlocks { count: *count, max: *max },
            E::TooManySdesChunks { count, max } => WErr::TooManySdesChunks { count: *count, max: *max },
            E::SdesValueTooLarge { len, max } => WErr::SdesValueTooLarge { len: *len, max: *max },
            E::SdesPrivPrefixTooLarge { len, max } => WErr::SdesPrivPrefixTooLarge { len: *len, max: *max },
            E::CountOutOfRange { count, max } => WErr::CountOutOfRange { count: *count, max: *max },
            E::NonLastCompoundPacketPadding => WErr::NonLastCompoundPacketPadding,
            E::MissingFci => WErr::MissingFci,
            E::TooManyNack => WErr::TooManyNack,
            E::FciWrongFeedbackPacketType => WErr::FciWrongFeedbackPacketType,
            E::PayloadTypeInvalid => WErr::PayloadTypeInvalid,
            E::PaddingBitsTooLarge => WErr::PaddingBitsTooLarge,
            E::TooManyFir => WErr::TooManyFir,
            other => WErr::Other(format!("{other:?}")),
        }
    }
}

pub fn werr<T>(r: Result<T, RtcpWriteError>) -> Result<T, WErr> {
    r.map_err(|e| WErr::from(&e))
}

// ---------------------------------------------------------------------------------------------
// construction
// ---------------------------------------------------------------------------------------------

/// Which of the equivalent construction paths to take (C06/C07/C14/C17 vary it; C20 compares them).
#[derive(Clone, Copy, Debug, Default, PartialEq, Eq, Hash, Serialize, Deserialize)]
pub struct How {
    /// `builder_owned(fci)` instead of `builder(&fci)`
    pub fb_owned: bool,
    /// wrap the builder in the `PacketBuilder` enum
    pub wrap: bool,
    /// put the (leaf) builder alone into a `CompoundBuilder`
    pub single_compound: bool,
    /// take the owned variants of the API where one exists (`add_item_owned` / `into_owned` for SDES
    /// items, `reason_owned` for BYE after the other fields were set); RPSI `native_data_owned` (after
    /// `payload_type`) goes with `fb_owned`, because `builder_owned` needs a `'static` FCI builder
    #[serde(default)]
    pub owned: bool,
    /// "measure, then go on configuring": query the size of the partially configured builder after
    /// construction and after every list add, and set the padding last (after a size query). A builder
    /// that remembers a size must forget it again when it is changed.
    #[serde(default)]
    pub probe: bool,
}

thread_local! {
    static PROBE: std::cell::Cell<bool> = const { std::cell::Cell::new(false) };
}

thread_local! {
    static OWNED_PATH: std::cell::Cell<bool> = const { std::cell::Cell::new(false) };
}

fn probing() -> bool {
    PROBE.with(|p| p.get())
}

/// size query on a partially configured packet builder, followed (for small packets) by a real write and
/// a write into a buffer that is too small: whatever the builder remembers from being measured or written
/// (results ignored; an unwind is caught) must not survive the setters that follow
fn pr<W: RtcpPacketWriter>(w: W) -> W {
    if probing() {
        if let Ok(Ok(n)) = guard(|| w.calculate_size()) {
            if n <= 1024 {
                let mut buf = vec![0xee_u8; n];
                let _ = guard(|| w.write_into(&mut buf).is_ok());
                let _ = guard(|| w.write_into(&mut buf[..n / 2]).is_ok());
            }
        }
    }
    w
}

/// the same for FCI builders (written the way the feedback packet writers call them: a buffer of the announced size)
fn prf<'a, F: FciBuilder<'a>>(f: F) -> F {
    if probing() {
        if let Ok(Ok(n)) = guard(|| f.calculate_size()) {
            if n <= 1024 {
                let mut buf = vec![0xee_u8; n];
                let _ = guard(|| f.write_into_unchecked(&mut buf));
            }
        }
    }
    f
}

/// The concrete builder types a visitor is handed with their own type, so that it can call their methods with
/// method syntax, as a user holding one would: that is where an inherent method shadows the trait's.
#[macro_export]
macro_rules! for_concrete_builders {
    ($m:ident) => {
        $m!(go_enum, PacketBuilder<'_>);
        $m!(go_compound, CompoundBuilder<'_>);
        $m!(go_sr, SenderReportBuilder);
        $m!(go_rr, ReceiverReportBuilder);
        $m!(go_sdes, SdesBuilder<'_>);
        $m!(go_bye, ByeBuilder<'_>);
        $m!(go_app, AppBuilder<'_>);
        $m!(go_unknown, UnknownBuilder<'_>);
        $m!(go_tfb, TransportFeedbackBuilder<'_>);
        $m!(go_pfb, PayloadFeedbackBuilder<'_>);
    };
}

macro_rules! default_concrete {
    ($f:ident, $t:ty) => {
        fn $f(self, w: &$t) -> Self::Out
        where
            Self: Sized,
        {
            self.go(w)
        }
    };
}

pub trait Visit {
    type Out;
    fn go<W: RtcpPacketWriter>(self, w: &W) -> Self::Out;
    for_concrete_builders!(default_concrete);
}

fn rb(b: &RbSpec) -> ReportBlockBuilder {
    ReportBlock::builder(b.ssrc)
        .fraction_lost(b.fraction_lost)
        .cumulative_lost(b.cumulative_lost)
        .extended_sequence_number(b.ext_seq)
        .interarrival_jitter(b.jitter)
        .last_sender_report_timestamp(b.lsr)
        .delay_since_last_sender_report_timestamp(b.dlsr)
}

pub fn sr(s: &SrSpec) -> SenderReportBuilder {
    let mut b = SenderReport::builder(s.ssrc);
    if !probing() {
        b = b.padding(s.padding);
    }
    b = pr(b.ntp_timestamp(s.ntp).rtp_timestamp(s.rtp).packet_count(s.packet_count).octet_count(s.octet_count));
    for x in &s.blocks {
        b = pr(b.add_report_block(rb(x)));
    }
    if probing() {
        // junk first, then the real value: the last call wins, also when it clears the padding
        b = pr(b.padding(s.padding ^ 4)).padding(s.padding);
    }
    b
}

pub fn rr(s: &RrSpec) -> ReceiverReportBuilder {
    let mut b = ReceiverReport::builder(s.ssrc);
    if !probing() {
        b = b.padding(s.padding);
    }
    b = pr(b);
    for x in &s.blocks {
        b = pr(b.add_report_block(rb(x)));
    }
    if probing() {
        b = pr(b.padding(s.padding ^ 4)).padding(s.padding);
    }
    b
}

pub fn item<'a>(it: &'a ItemSpec) -> SdesItemBuilder<'a> {
    let b = SdesItem::builder(it.ty, it.value.as_str());
    if it.ty == 8 || !it.prefix.is_empty() {
        b.prefix(&it.prefix[..])
    } else {
        b
    }
}

/// the chunk builder's only public size query is a write
fn pr_chunk<'a>(b: SdesChunkBuilder<'a>) -> SdesChunkBuilder<'a> {
    if probing() {
        let _ = guard(|| {
            let mut scratch = [0u8; 64];
            b.write_into(&mut scratch).is_ok()
        });
    }
    b
}

pub fn chunk<'a>(c: &'a ChunkSpec) -> SdesChunkBuilder<'a> {
    let mut b = pr_chunk(SdesChunk::builder(c.ssrc));
    for it in &c.items {
        b = pr_chunk(b.add_item(item(it)));
    }
    b
}

/// the same configuration through the owned variants of the SDES API
pub fn sdes_owned(s: &SdesSpec) -> SdesBuilder<'static> {
    let mut b = pr(if probing() { Sdes::builder() } else { Sdes::builder().padding(s.padding) });
    for c in &s.chunks {
        let mut cb = pr_chunk(SdesChunk::builder(c.ssrc));
        for (i, it) in c.items.iter().enumerate() {
            cb = pr_chunk(if i % 2 == 0 { cb.add_item_owned(item(it)) } else { cb.add_item(item(it).into_owned()) });
        }
        b = pr(b.add_chunk(cb));
    }
    if probing() {
        b = pr(b.padding(s.padding ^ 4)).padding(s.padding);
    }
    b
}

pub fn sdes<'a>(s: &'a SdesSpec) -> SdesBuilder<'a> {
    let mut b = pr(if probing() { Sdes::builder() } else { Sdes::builder().padding(s.padding) });
    for c in &s.chunks {
        b = pr(b.add_chunk(chunk(c)));
    }
    if probing() {
        b = pr(b.padding(s.padding ^ 4)).padding(s.padding);
    }
    b
}

pub fn bye<'a>(s: &'a ByeSpec) -> ByeBuilder<'a> {
    let mut b = pr(if probing() { Bye::builder() } else { Bye::builder().padding(s.padding) });
    for x in &s.sources {
        b = pr(b.add_source(*x));
    }
    if let Some(r) = &s.reason {
        if probing() {
            b = pr(b.reason("measured before the real reason was set"));
        }
        b = pr(b.reason(r.as_str()));
    }
    if probing() {
        b = pr(b.padding(s.padding ^ 4)).padding(s.padding);
    }
    b
}

/// `reason_owned` called last, after padding and sources were configured
pub fn bye_owned(s: &ByeSpec) -> ByeBuilder<'static> {
    let mut b = pr(Bye::builder().padding(s.padding));
    for x in &s.sources {
        b = pr(b.add_source(*x));
    }
    match &s.reason {
        // junk first, then the configured text: the last call wins
        Some(r) => b.reason_owned(String::from("overwritten")).reason_owned(r.clone()),
        // a reason that was never set is never set on this path either
        None => b,
    }
}

pub fn app<'a>(s: &'a AppSpec) -> AppBuilder<'a> {
    pr(pr(App::builder(s.ssrc, s.name.as_str())).subtype(s.subtype).data(&s.data)).padding(s.padding)
}

pub fn unknown<'a>(s: &'a UnknownSpec) -> UnknownBuilder<'a> {
    if OWNED_PATH.with(|o| o.get()) && !probing() {
        // the two setters are independent: the other order (UnknownBuilder has no owned variant, so the
        // `owned` construction path selects it)
        return Unknown::builder(s.pt, &s.data).padding(s.padding).count(s.count);
    }
    pr(pr(Unknown::builder(s.pt, &s.data)).count(s.count)).padding(s.padding)
}

pub enum FciHolder<'a> {
    Nack(NackBuilder),
    Pli(PliBuilder),
    Sli(SliBuilder),
    Rpsi(RpsiBuilder<'a>),
    Fir(FirBuilder),
}

pub fn fci<'a>(f: &'a FciSpec) -> FciHolder<'a> {
    match f {
        FciSpec::Nack(v) => {
            let mut b = prf(Nack::builder());
            for s in v {
                b = prf(b.add_rtp_sequence(*s));
            }
            FciHolder::Nack(b)
        }
        FciSpec::Pli => FciHolder::Pli(Pli::builder()),
        FciSpec::Sli(v) => {
            let mut b = prf(Sli::builder());
            for (a, n, p) in v {
                b = prf(b.add_lost_macroblock(*a, *n, *p));
            }
            FciHolder::Sli(b)
        }
        FciSpec::Rpsi { pt, data, overrun } => {
            FciHolder::Rpsi(prf(prf(Rpsi::builder()).payload_type(*pt)).native_data(&data[..], *overrun))
        }
        FciSpec::Fir(v) => {
            let mut b = prf(Fir::builder());
            for (s, q) in v {
                b = prf(b.add_ssrc(*s, *q));
            }
            FciHolder::Fir(b)
        }
    }
}

pub fn fci_static(f: &FciSpec) -> FciHolder<'static> {
    match f {
        FciSpec::Rpsi { pt, data, overrun } => {
            FciHolder::Rpsi(prf(prf(Rpsi::builder()).payload_type(*pt)).native_data_owned(&data[..], *overrun))
        }
        FciSpec::Nack(_) => match fci(f) {
            FciHolder::Nack(b) => FciHolder::Nack(b),
            _ => unreachable!(),
        },
        FciSpec::Pli => FciHolder::Pli(Pli::builder()),
        FciSpec::Sli(_) => match fci(f) {
            FciHolder::Sli(b) => FciHolder::Sli(b),
            _ => unreachable!(),
        },
        FciSpec::Fir(_) => match fci(f) {
            FciHolder::Fir(b) => FciHolder::Fir(b),
            _ => unreachable!(),
        },
    }
}

impl<'a> FciHolder<'a> {
    /// the FCI builder used directly as a writer (every FCI builder implements `RtcpPacketWriter`)
    pub fn write_into(&self, buf: &mut [u8]) -> Result<usize, RtcpWriteError> {
        match self {
            FciHolder::Nack(b) => b.write_into(buf),
            FciHolder::Pli(b) => b.write_into(buf),
            FciHolder::Sli(b) => b.write_into(buf),
            FciHolder::Rpsi(b) => b.write_into(buf),
            FciHolder::Fir(b) => b.write_into(buf),
        }
    }
    pub fn as_dyn(&'a self) -> &'a dyn FciBuilder<'a> {
        match self {
            FciHolder::Nack(b) => b,
            FciHolder::Pli(b) => b,
            FciHolder::Sli(b) => b,
            FciHolder::Rpsi(b) => b,
            FciHolder::Fir(b) => b,
        }
    }
}

pub fn tfb_owned(s: &FbSpec) -> TransportFeedbackBuilder<'static> {
    let b = match fci_static(&s.fci) {
        FciHolder::Nack(f) => TransportFeedback::builder_owned(f),
        FciHolder::Pli(f) => TransportFeedback::builder_owned(f),
        FciHolder::Sli(f) => TransportFeedback::builder_owned(f),
        FciHolder::Rpsi(f) => TransportFeedback::builder_owned(f),
        FciHolder::Fir(f) => TransportFeedback::builder_owned(f),
    };
    pr(pr(b).sender_ssrc(s.sender).media_ssrc(s.media)).padding(s.padding)
}

pub fn pfb_owned(s: &FbSpec) -> PayloadFeedbackBuilder<'static> {
    let b = match fci_static(&s.fci) {
        FciHolder::Nack(f) => PayloadFeedback::builder_owned(f),
        FciHolder::Pli(f) => PayloadFeedback::builder_owned(f),
        FciHolder::Sli(f) => PayloadFeedback::builder_owned(f),
        FciHolder::Rpsi(f) => PayloadFeedback::builder_owned(f),
        FciHolder::Fir(f) => PayloadFeedback::builder_owned(f),
    };
    pr(pr(b).sender_ssrc(s.sender).media_ssrc(s.media)).padding(s.padding)
}

pub fn tfb<'a>(s: &FbSpec, h: &'a FciHolder<'a>) -> TransportFeedbackBuilder<'a> {
    pr(pr(TransportFeedback::builder(h.as_dyn())).sender_ssrc(s.sender).media_ssrc(s.media)).padding(s.padding)
}

pub fn pfb<'a>(s: &FbSpec, h: &'a FciHolder<'a>) -> PayloadFeedbackBuilder<'a> {
    pr(pr(PayloadFeedback::builder(h.as_dyn())).sender_ssrc(s.sender).media_ssrc(s.media)).padding(s.padding)
}

pub fn custom<const PT: u8, const MIN: usize>(c: &CustomSpec) -> CustomBuilder<PT, MIN> {
    CustomBuilder { count: c.count, ssrc: c.ssrc, fixed: c.fixed.clone(), tail: c.tail.clone(), padding: c.padding }
}

/// FCI builders of every feedback leaf of `p`, in depth-first order
fn collect_holders<'a>(p: &'a PacketSpec, out: &mut Vec<FciHolder<'a>>) {
    match p {
        PacketSpec::Fb(s) => out.push(fci(&s.fci)),
        PacketSpec::Compound(v) => {
            for m in v {
                collect_holders(m, out)
            }
        }
        _ => {}
    }
}

fn add_member<'a>(
    cb: CompoundBuilder<'a>,
    m: &'a PacketSpec,
    how: How,
    holders: &'a [FciHolder<'a>],
    next: &mut usize,
) -> CompoundBuilder<'a> {
    match m {
        PacketSpec::Sr(s) => {
            if how.wrap {
                cb.add_packet(PacketBuilder::from(sr(s)))
            } else {
                cb.add_packet(sr(s))
            }
        }
        PacketSpec::Rr(s) => {
            if how.wrap {
                cb.add_packet(PacketBuilder::from(rr(s)))
            } else {
                cb.add_packet(rr(s))
            }
        }
        PacketSpec::Sdes(s) => match (how.owned, how.wrap) {
            (false, true) => cb.add_packet(PacketBuilder::from(sdes(s))),
            (false, false) => cb.add_packet(sdes(s)),
            (true, true) => cb.add_packet(PacketBuilder::from(sdes_owned(s))),
            (true, false) => cb.add_packet(sdes_owned(s)),
        },
        PacketSpec::Bye(s) => match (how.owned, how.wrap) {
            (false, true) => cb.add_packet(PacketBuilder::from(bye(s))),
            (false, false) => cb.add_packet(bye(s)),
            (true, true) => cb.add_packet(PacketBuilder::from(bye_owned(s))),
            (true, false) => cb.add_packet(bye_owned(s)),
        },
        PacketSpec::App(s) => {
            if how.wrap {
                cb.add_packet(PacketBuilder::from(app(s)))
            } else {
                cb.add_packet(app(s))
            }
        }
        PacketSpec::Unknown(s) => {
            if how.wrap {
                cb.add_packet(PacketBuilder::from(unknown(s)))
            } else {
                cb.add_packet(unknown(s))
            }
        }
        PacketSpec::Fb(s) => {
            let h = &holders[*next];
            *next += 1;
            match (s.kind, how.fb_owned, how.wrap) {
                (FbKind::Transport, false, false) => cb.add_packet(tfb(s, h)),
                (FbKind::Transport, false, true) => cb.add_packet(PacketBuilder::from(tfb(s, h))),
                (FbKind::Transport, true, false) => cb.add_packet(tfb_owned(s)),
                (FbKind::Transport, true, true) => cb.add_packet(PacketBuilder::from(tfb_owned(s))),
                (FbKind::Payload, false, false) => cb.add_packet(pfb(s, h)),
                (FbKind::Payload, false, true) => cb.add_packet(PacketBuilder::from(pfb(s, h))),
                (FbKind::Payload, true, false) => cb.add_packet(pfb_owned(s)),
                (FbKind::Payload, true, true) => cb.add_packet(PacketBuilder::from(pfb_owned(s))),
            }
        }
        PacketSpec::Custom(c) => {
            with_family!(c.family, PT, MIN, { cb.add_packet(custom::<PT, MIN>(c)) })
        }
        PacketSpec::Compound(v) => {
            let mut inner = pr(Compound::builder());
            for x in v {
                inner = pr(add_member(inner, x, how, holders, next));
            }
            cb.add_packet(inner)
        }
    }
}

/// Build the crate's writer for `p` along the path `how` and hand it (with its concrete type) to `v`.
pub fn with_writer<V: Visit>(p: &PacketSpec, how: How, v: V) -> V::Out {
    struct Reset(bool);
    impl Drop for Reset {
        fn drop(&mut self) {
            PROBE.with(|p| p.set(self.0));
        }
    }
    let _reset = Reset(PROBE.with(|p| p.replace(how.probe)));
    struct ResetOwned(bool);
    impl Drop for ResetOwned {
        fn drop(&mut self) {
            OWNED_PATH.with(|p| p.set(self.0));
        }
    }
    let _reset_owned = ResetOwned(OWNED_PATH.with(|p| p.replace(how.owned)));
    with_writer_inner(p, how, v)
}

fn with_writer_inner<V: Visit>(p: &PacketSpec, how: How, v: V) -> V::Out {
    if how.single_compound || matches!(p, PacketSpec::Compound(_)) {
        let mut holders = Vec::new();
        collect_holders(p, &mut holders);
        let mut next = 0usize;
        let cb = match p {
            PacketSpec::Compound(members) => {
                let mut cb = pr(Compound::builder());
                for m in members {
                    cb = pr(add_member(cb, m, how, &holders, &mut next));
                }
                cb
            }
            leaf => add_member(Compound::builder(), leaf, how, &holders, &mut next),
        };
        return v.go_compound(&cb);
    }
    match p {
        PacketSpec::Sr(s) => {
            if how.wrap {
                v.go_enum(&PacketBuilder::from(sr(s)))
            } else {
                v.go_sr(&sr(s))
            }
        }
        PacketSpec::Rr(s) => {
            if how.wrap {
                v.go_enum(&PacketBuilder::from(rr(s)))
            } else {
                v.go_rr(&rr(s))
            }
        }
        PacketSpec::Sdes(s) => match (how.owned, how.wrap) {
            (false, true) => v.go_enum(&PacketBuilder::from(sdes(s))),
            (false, false) => v.go_sdes(&sdes(s)),
            (true, true) => v.go_enum(&PacketBuilder::from(sdes_owned(s))),
            (true, false) => v.go_sdes(&sdes_owned(s)),
        },
        PacketSpec::Bye(s) => match (how.owned, how.wrap) {
            (false, true) => v.go_enum(&PacketBuilder::from(bye(s))),
            (false, false) => v.go_bye(&bye(s)),
            (true, true) => v.go_enum(&PacketBuilder::from(bye_owned(s))),
            (true, false) => v.go_bye(&bye_owned(s)),
        },
        PacketSpec::App(s) => {
            if how.wrap {
                v.go_enum(&PacketBuilder::from(app(s)))
            } else {
                v.go_app(&app(s))
            }
        }
        PacketSpec::Unknown(s) => {
            if how.wrap {
                v.go_enum(&PacketBuilder::from(unknown(s)))
            } else {
                v.go_unknown(&unknown(s))
            }
        }
        PacketSpec::Fb(s) => {
            let h = fci(&s.fci);
            match (s.kind, how.fb_owned, how.wrap) {
                (FbKind::Transport, false, false) => v.go_tfb(&tfb(s, &h)),
                (FbKind::Transport, false, true) => v.go_enum(&PacketBuilder::from(tfb(s, &h))),
                (FbKind::Transport, true, false) => v.go_tfb(&tfb_owned(s)),
                (FbKind::Transport, true, true) => v.go_enum(&PacketBuilder::from(tfb_owned(s))),
                (FbKind::Payload, false, false) => v.go_pfb(&pfb(s, &h)),
                (FbKind::Payload, false, true) => v.go_enum(&PacketBuilder::from(pfb(s, &h))),
                (FbKind::Payload, true, false) => v.go_pfb(&pfb_owned(s)),
                (FbKind::Payload, true, true) => v.go_enum(&PacketBuilder::from(pfb_owned(s))),
            }
        }
        PacketSpec::Custom(c) => {
            with_family!(c.family, PT, MIN, { v.go(&custom::<PT, MIN>(c)) })
        }
        PacketSpec::Compound(_) => unreachable!(),
    }
}

// ---------------------------------------------------------------------------------------------
// build observations
// ---------------------------------------------------------------------------------------------

/// two prefill patterns that differ in every byte
pub fn prefill(len: usize, which: bool) -> Vec<u8> {
    (0..len)
        .map(|i| {
            let a = (i as u32).wrapping_mul(0x9e37_79b1).rotate_left(7) as u8 ^ 0xa5;
            if which {
                !a
            } else {
                a
            }
        })
        .collect()
}

#[derive(Clone, Debug)]
pub struct WriteObs {
    pub buf_len: usize,
    pub which: bool,
    pub result: Result<Result<usize, WErr>, Caught>,
    pub after: Vec<u8>,
}

#[derive(Clone, Debug)]
pub struct BuildObs {
    pub size: Result<Result<usize, WErr>, Caught>,
    pub get_padding: Result<Option<u8>, Caught>,
    pub writes: Vec<WriteObs>,
}

/// the observation itself, as a macro so that the calls are method calls on whatever type `w` has
macro_rules! observe_body {
    ($self:ident, $w:ident) => {{
        step("calculate_size");
        let size = guard(|| werr($w.calculate_size()));
        step("get_padding");
        let get_padding = guard(|| $w.get_padding());
        let n = match &size {
            Ok(Ok(n)) => Some(*n),
            _ => None,
        };
        let mut writes = Vec::new();
        for (len, which) in ($self.plan)(n) {
            let mut buf = prefill(len, which);
            step("write_into");
            let result = guard(|| werr($w.write_into(&mut buf)));
            writes.push(WriteObs { buf_len: len, which, result, after: buf });
        }
        BuildObs { size, get_padding, writes }
    }};
}

/// What to write: buffer lengths are derived from the announced size n by `plan(n)`.
pub struct Observe<F: Fn(Option<usize>) -> Vec<(usize, bool)>> {
    pub plan: F,
}

macro_rules! observe_concrete {
    ($f:ident, $t:ty) => {
        fn $f(self, w: &$t) -> BuildObs {
            observe_body!(self, w)
        }
    };
}

impl<F: Fn(Option<usize>) -> Vec<(usize, bool)>> Visit for Observe<F> {
    type Out = BuildObs;
    fn go<W: RtcpPacketWriter>(self, w: &W) -> BuildObs {
        observe_body!(self, w)
    }
    for_concrete_builders!(observe_concrete);
}

pub fn observe_build(p: &PacketSpec, how: How, plan: impl Fn(Option<usize>) -> Vec<(usize, bool)>) -> BuildObs {
    with_writer(p, how, Observe { plan })
}

#[derive(Clone, Debug)]
pub enum BuildErr {
    Rejected(WErr),
    Panic(Caught),
    /// write_into into an exactly sized buffer disagreed with calculate_size
    Inconsistent(String),
}

/// calculate_size, then write_into a garbage-prefilled buffer of exactly that size.
pub fn build_exact(p: &PacketSpec, how: How) -> Result<Vec<u8>, BuildErr> {
    let o = observe_build(p, how, |n| match n {
        Some(n) => vec![(n, false)],
        None => vec![],
    });
    match o.size {
        Err(c) => Err(BuildErr::Panic(c)),
        Ok(Err(e)) => Err(BuildErr::Rejected(e)),
        Ok(Ok(n)) => {
            let w = &o.writes[0];
            match &w.result {
                Err(c) => Err(BuildErr::Panic(c.clone())),
                Ok(Err(e)) => Err(BuildErr::Inconsistent(format!("calculate_size = Ok({n}) but write_into(exact buffer) = Err({e:?})"))),
                Ok(Ok(m)) if *m != n => {
                    Err(BuildErr::Inconsistent(format!("calculate_size = Ok({n}) but write_into returned Ok({m})")))
                }
                Ok(Ok(_)) => Ok(w.after.clone()),
            }
        }
    }
}

/// The first n bytes after `write_into` a garbage-prefilled buffer of n + `slack` bytes (the image must not
/// depend on how much room the caller offers). `None` when the configuration is rejected or a write goes wrong:
/// those are judged through `build_exact`.
pub fn build_with_slack(p: &PacketSpec, how: How, slack: usize) -> Option<Vec<u8>> {
    let o = observe_build(p, how, |n| match n {
        Some(n) => vec![(n + slack, true)],
        None => vec![],
    });
    match (o.size, o.writes.first()) {
        (Ok(Ok(n)), Some(w)) if w.result == Ok(Ok(n)) => Some(w.after[..n].to_vec()),
        _ => None,
    }
}

/// `build_exact` for oracles whose domain is the accepted configurations: any trouble is a Failure.
pub fn build_valid(p: &PacketSpec, how: How, ctx: &str) -> Result<Vec<u8>, Failure> {
    match build_exact(p, how) {
        Ok(b) => Ok(b),
        Err(BuildErr::Rejected(e)) => Err(Failure::new(
            format!("{ctx}:{}:rejected-representable", p.long_name()),
            format!("builder rejected a representable configuration with {e:?}"),
        )),
        Err(BuildErr::Panic(c)) => Err(Failure::new(
            format!("{ctx}:{}:panic:{}", p.long_name(), c.step),
            format!("{} panicked: {}", c.step, c.message),
        )),
        Err(BuildErr::Inconsistent(s)) => Err(Failure::new(format!("{ctx}:{}:size-mismatch", p.long_name()), s)),
    }
}

// ---------------------------------------------------------------------------------------------
// parsed view -> observed value (JSON) ; spec -> expected value
// ---------------------------------------------------------------------------------------------

fn rb_value(b: &ReportBlock) -> Value {
    json!({
        "ssrc": b.ssrc(),
        "fraction_lost": b.fraction_lost(),
        "cumulative_lost": b.cumulative_lost(),
        "ext_seq": b.extended_sequence_number(),
        "jitter": b.interarrival_jitter(),
        "lsr": b.last_sender_report_timestamp(),
        "dlsr": b.delay_since_last_sender_report_timestamp(),
    })
}

fn rb_expected(b: &RbSpec) -> Value {
    json!({
        "ssrc": b.ssrc,
        "fraction_lost": b.fraction_lost,
        "cumulative_lost": b.cumulative_lost,
        "ext_seq": b.ext_seq,
        "jitter": b.jitter,
        "lsr": b.lsr,
        "dlsr": b.dlsr,
    })
}

fn bits_string(bits: &[bool]) -> String {
    bits.iter().map(|b| if *b { '1' } else { '0' }).collect()
}

/// `MacroBlockEntry { start: 1, count: 2, picture_id: 3 }` -> (1, 2, 3); the derived Debug is the
/// only public view of an SLI entry.
/// How an SLI entry can be read. `MacroBlockEntry` has no accessors; its only public views are
/// `Debug` and `PartialEq`. The Debug text is not part of any contract (a hand-written impl with
/// other field names, another order or hex output is legitimate), so the layout is *calibrated* at
/// first use: two reference-encoded words with known, distinct field values are parsed with the
/// crate and the positions (and radix) at which the three values appear among the integer literals
/// of the Debug text are recorded. If that fails the view is `Opaque`: entries are then compared by
/// their Debug text with the Debug text of the crate-parsed reference word for the expected values
/// (all a user could do as well).
#[derive(Clone, Debug)]
pub enum SliView {
    /// the derived Debug of today's `MacroBlockEntry { start, count, picture_id }`: read by field name, which
    /// does not depend on the decoder being right (a decoding bug must not be able to blind the view)
    Named,
    /// another layout: token index of (first, number, picture id) among the integer literals, calibrated
    Fields([usize; 3]),
    Opaque,
}

fn sli_by_name(s: &str) -> Option<(u16, u16, u8)> {
    let num_after = |key: &str| -> Option<u64> {
        let at = s.find(key)? + key.len();
        let rest = s[at..].trim_start_matches(|c: char| c == ':' || c == ' ');
        let digits: String = rest.chars().take_while(|c| c.is_ascii_digit()).collect();
        // a plain decimal literal only: "0x12", "12u16", "1_000" are another layout (-> calibration)
        if rest[digits.len()..].chars().next().map(|c| c.is_ascii_alphanumeric() || c == '_').unwrap_or(false) {
            return None;
        }
        digits.parse().ok()
    };
    Some((num_after("start")? as u16, num_after("count")? as u16, num_after("picture_id")? as u8))
}

fn int_tokens(s: &str) -> Vec<u64> {
    let b = s.as_bytes();
    let mut out = Vec::new();
    let mut i = 0;
    while i < b.len() {
        if b[i].is_ascii_digit() && (i == 0 || !(b[i - 1].is_ascii_alphanumeric() || b[i - 1] == b'_')) {
            if b[i] == b'0' && i + 1 < b.len() && (b[i + 1] == b'x' || b[i + 1] == b'X') {
                let mut j = i + 2;
                while j < b.len() && (b[j].is_ascii_hexdigit() || b[j] == b'_') {
                    j += 1;
                }
                let t: String = s[i + 2..j].chars().filter(|c| *c != '_').collect();
                if let Ok(v) = u64::from_str_radix(&t, 16) {
                    out.push(v);
                }
                i = j;
            } else {
                let mut j = i;
                while j < b.len() && (b[j].is_ascii_digit() || b[j] == b'_') {
                    j += 1;
                }
                let t: String = s[i..j].chars().filter(|c| *c != '_').collect();
                if let Ok(v) = t.parse::<u64>() {
                    out.push(v);
                }
                i = j;
            }
        } else {
            i += 1;
        }
    }
    out
}

fn sli_word(a: u16, n: u16, p: u8) -> [u8; 4] {
    (((a as u32 & 0x1fff) << 19) | ((n as u32 & 0x1fff) << 6) | (p as u32 & 0x3f)).to_be_bytes()
}

/// Debug text of the entry the crate decodes from the reference word for (a, n, p)
fn sli_debug_of(a: u16, n: u16, p: u8) -> Option<String> {
    let w = sli_word(a, n, p);
    guard(|| <Sli as FciParser>::parse(&w).ok().and_then(|s| s.lost_macroblocks().next().map(|e| format!("{e:?}")))).ok().flatten()
}

pub fn sli_view() -> &'static SliView {
    static V: std::sync::OnceLock<SliView> = std::sync::OnceLock::new();
    V.get_or_init(|| {
        let cal = [(0x1234u16, 0x0987u16, 0x25u8), (0x0abc, 0x1def, 0x3a), (7, 11, 13)];
        if let Some(d) = sli_debug_of(cal[0].0, cal[0].1, cal[0].2) {
            if d.contains("start:") && d.contains("count:") && d.contains("picture_id:") && sli_by_name(&d).is_some() {
                return SliView::Named;
            }
        }
        let mut layout: Option<[usize; 3]> = None;
        for (a, n, p) in cal {
            let toks = match sli_debug_of(a, n, p) {
                Some(d) => int_tokens(&d),
                None => return SliView::Opaque,
            };
            let find = |v: u64| -> Option<usize> {
                let hits: Vec<usize> = toks.iter().enumerate().filter(|(_, t)| **t == v).map(|(i, _)| i).collect();
                if hits.len() == 1 {
                    Some(hits[0])
                } else {
                    None
                }
            };
            let here = match (find(a as u64), find(n as u64), find(p as u64)) {
                (Some(x), Some(y), Some(z)) => [x, y, z],
                _ => return SliView::Opaque,
            };
            match layout {
                None => layout = Some(here),
                Some(l) if l == here => {}
                Some(_) => return SliView::Opaque,
            }
        }
        layout.map(SliView::Fields).unwrap_or(SliView::Opaque)
    })
}

/// the (first, number, picture id) of an entry, when the calibrated view can read them
pub fn parse_sli_debug(s: &str) -> Option<(u16, u16, u8)> {
    match sli_view() {
        SliView::Named => sli_by_name(s),
        SliView::Fields(ix) => {
            let t = int_tokens(s);
            Some((*t.get(ix[0])? as u16, *t.get(ix[1])? as u16, *t.get(ix[2])? as u8))
        }
        SliView::Opaque => None,
    }
}

/// an observed entry as a comparable value
pub fn sli_observed(dbg: &str) -> Value {
    match parse_sli_debug(dbg) {
        Some((a, n, p)) => json!([a, n, p]),
        None => json!({ "debug": dbg }),
    }
}

/// the value `sli_observed` yields for an entry that holds exactly (a, n, p)
pub fn sli_expected(a: u16, n: u16, p: u8) -> Value {
    match sli_view() {
        SliView::Named | SliView::Fields(_) => json!([a, n, p]),
        SliView::Opaque => json!({ "debug": sli_debug_of(a, n, p).unwrap_or_default() }),
    }
}

fn perr(e: &RtcpParseError) -> Value {
    json!({ "error": format!("{e:?}") })
}

/// Decoded FCI of a transport feedback packet, by its format number.
pub fn tfb_fci_value(fb: &TransportFeedback) -> Result<Value, Failure> {
    let fmt = fb.count();
    if fmt == 1 {
        let r = no_panic("TransportFeedback::parse_fci::<Nack>", || fb.parse_fci::<Nack>())?;
        match r {
            Ok(n) => {
                let v: Vec<u16> = no_panic("Nack::entries", || n.entries().take(1 << 21).collect())?;
                Ok(json!({ "nack": v }))
            }
            Err(e) => Ok(perr(&e)),
        }
    } else {
        Ok(json!({ "format": fmt }))
    }
}

pub fn pfb_fci_value(fb: &PayloadFeedback) -> Result<Value, Failure> {
    let fmt = fb.count();
    match fmt {
        1 => {
            let r = no_panic("PayloadFeedback::parse_fci::<Pli>", || fb.parse_fci::<Pli>())?;
            Ok(match r {
                Ok(_) => json!("pli"),
                Err(e) => perr(&e),
            })
        }
        2 => {
            let r = no_panic("PayloadFeedback::parse_fci::<Sli>", || fb.parse_fci::<Sli>())?;
            match r {
                Ok(s) => {
                    let v: Vec<String> =
                        no_panic("Sli::lost_macroblocks", || s.lost_macroblocks().take(1 << 21).map(|e| format!("{e:?}")).collect())?;
                    let out: Vec<Value> = v.iter().map(|e| sli_observed(e)).collect();
                    Ok(json!({ "sli": out }))
                }
                Err(e) => Ok(perr(&e)),
            }
        }
        3 => {
            let r = no_panic("PayloadFeedback::parse_fci::<Rpsi>", || fb.parse_fci::<Rpsi>())?;
            match r {
                Ok(r) => {
                    let pt = no_panic("Rpsi::payload_type", || r.payload_type())?;
                    let (data, ignored) = no_panic("Rpsi::bit_string", || {
                        let (d, i) = r.bit_string();
                        (d.to_vec(), i)
                    })?;
                    // documented: "how many bits to remove from the last byte" - more than a byte's worth is
                    // not a bit count of the last byte, whatever the bytes before it hold
                    match bits_of(&data, ignored).filter(|_| ignored <= 8) {
                        Some(bits) => Ok(json!({ "rpsi": { "pt": pt, "bits": bits_string(&bits) } })),
                        None => Ok(json!({ "rpsi": { "pt": pt, "bad_bit_string": [hex(&data), ignored] } })),
                    }
                }
                Err(e) => Ok(perr(&e)),
            }
        }
        4 => {
            let r = no_panic("PayloadFeedback::parse_fci::<Fir>", || fb.parse_fci::<Fir>())?;
            match r {
                Ok(f) => {
                    let mut v: Vec<(u32, u8)> =
                        no_panic("Fir::entries", || f.entries().take(1 << 21).map(|e| (e.ssrc(), e.sequence())).collect())?;
                    v.sort();
                    Ok(json!({ "fir": v }))
                }
                Err(e) => Ok(perr(&e)),
            }
        }
        _ => Ok(json!({ "format": fmt })),
    }
}

fn sdes_value(s: &Sdes) -> Result<Value, Failure> {
    let mut chunks = Vec::new();
    step("Sdes::chunks");
    for c in s.chunks() {
        let mut items = Vec::new();
        step("SdesChunk::items");
        for it in c.items() {
            let ty = no_panic("SdesItem::type_", || it.type_())?;
            let value = no_panic("SdesItem::value", || it.value().to_vec())?;
            let prefix = if ty == SdesItem::PRIV {
                no_panic("SdesItem::priv_prefix", || it.priv_prefix().to_vec())?
            } else {
                Vec::new()
            };
            items.push(json!({ "type": ty, "prefix": hex(&prefix), "value": hex(&value) }));
        }
        let ssrc = no_panic("SdesChunk::ssrc", || c.ssrc())?;
        chunks.push(json!({ "ssrc": ssrc, "items": items }));
    }
    Ok(Value::Array(chunks))
}

/// Everything the typed parser selected by the packet type byte reports about `b`.
/// `Err` = a panic in an accessor; `Ok(json {"error":..})` = the parser rejected.
pub fn observe_packet(b: &[u8]) -> Result<Value, Failure> {
    if b.len() < 4 {
        return Ok(json!({ "error": "shorter than a header" }));
    }
    match b[1] {
        200 => {
            let r = no_panic("SenderReport::parse", || SenderReport::parse(b))?;
            match r {
                Err(e) => Ok(perr(&e)),
                Ok(p) => no_panic("SenderReport accessors", || {
                    json!({
                        "type": "SR", "count": p.count(), "n_reports": p.n_reports(), "padding": obs_pad(p.padding()),
                        "ssrc": p.ssrc(), "ntp": p.ntp_timestamp(), "rtp": p.rtp_timestamp(),
                        "packet_count": p.packet_count(), "octet_count": p.octet_count(),
                        "blocks": p.report_blocks().map(|b| rb_value(&b)).collect::<Vec<_>>(),
                    })
                }),
            }
        }
        201 => {
            let r = no_panic("ReceiverReport::parse", || ReceiverReport::parse(b))?;
            match r {
                Err(e) => Ok(perr(&e)),
                Ok(p) => no_panic("ReceiverReport accessors", || {
                    json!({
                        "type": "RR", "count": p.count(), "n_reports": p.n_reports(), "padding": obs_pad(p.padding()),
                        "ssrc": p.ssrc(),
                        "blocks": p.report_blocks().map(|b| rb_value(&b)).collect::<Vec<_>>(),
                    })
                }),
            }
        }
        202 => {
            let r = no_panic("Sdes::parse", || Sdes::parse(b))?;
            match r {
                Err(e) => Ok(perr(&e)),
                Ok(p) => {
                    let chunks = sdes_value(&p)?;
                    let padding = obs_pad(no_panic("Sdes::padding", || p.padding())?);
                    Ok(json!({ "type": "SDES", "count": p.count(), "padding": padding, "chunks": chunks }))
                }
            }
        }
        203 => {
            let r = no_panic("Bye::parse", || Bye::parse(b))?;
            match r {
                Err(e) => Ok(perr(&e)),
                Ok(p) => {
                    let sources: Vec<u32> = no_panic("Bye::ssrcs", || p.ssrcs().collect())?;
                    let reason = no_panic("Bye::reason", || p.reason().map(hex))?;
                    let padding = obs_pad(no_panic("Bye::padding", || p.padding())?);
                    Ok(json!({ "type": "BYE", "count": p.count(), "padding": padding, "sources": sources, "reason": reason }))
                }
            }
        }
        204 => {
            let r = no_panic("App::parse", || App::parse(b))?;
            match r {
                Err(e) => Ok(perr(&e)),
                Ok(p) => {
                    let data = no_panic("App::data", || hex(p.data()))?;
                    let name = no_panic("App::name", || hex(&p.name()))?;
                    let padding = obs_pad(no_panic("App::padding", || p.padding())?);
                    Ok(json!({ "type": "APP", "subtype": p.subtype(), "padding": padding, "ssrc": p.ssrc(), "name": name, "data": data }))
                }
            }
        }
        205 => {
            let r = no_panic("TransportFeedback::parse", || TransportFeedback::parse(b))?;
            match r {
                Err(e) => Ok(perr(&e)),
                Ok(p) => {
                    let fci = tfb_fci_value(&p)?;
                    let padding = obs_pad(no_panic("TransportFeedback::padding", || p.padding())?);
                    Ok(json!({ "type": "TFB", "format": p.count(), "padding": padding, "sender": p.sender_ssrc(), "media": p.media_ssrc(), "fci": fci }))
                }
            }
        }
        206 => {
            let r = no_panic("PayloadFeedback::parse", || PayloadFeedback::parse(b))?;
            match r {
                Err(e) => Ok(perr(&e)),
                Ok(p) => {
                    let fci = pfb_fci_value(&p)?;
                    let padding = obs_pad(no_panic("PayloadFeedback::padding", || p.padding())?);
                    Ok(json!({ "type": "PFB", "format": p.count(), "padding": padding, "sender": p.sender_ssrc(), "media": p.media_ssrc(), "fci": fci }))
                }
            }
        }
        _ => {
            let r = no_panic("Unknown::parse", || Unknown::parse(b))?;
            match r {
                Err(e) => Ok(perr(&e)),
                Ok(p) => Ok(json!({ "type": "UNKNOWN", "pt": p.type_(), "count": p.count(), "bytes": hex(p.data()) })),
            }
        }
    }
}

/// the padding a parsed view reports, as a comparable value: `None` and `Some(0)` both mean "no padding"
fn obs_pad(p: Option<u8>) -> Value {
    match p {
        None | Some(0) => Value::Null,
        Some(n) => json!(n),
    }
}

fn opt_pad(p: u8) -> Value {
    if p == 0 {
        Value::Null
    } else {
        json!(p)
    }
}

/// What `observe_packet` must report for the bytes built from a representable leaf `spec`.
pub fn expected_observation(p: &PacketSpec) -> Value {
    match p {
        PacketSpec::Sr(s) => json!({
            "type": "SR", "count": s.blocks.len(), "n_reports": s.blocks.len(), "padding": opt_pad(s.padding),
            "ssrc": s.ssrc, "ntp": s.ntp, "rtp": s.rtp, "packet_count": s.packet_count, "octet_count": s.octet_count,
            "blocks": s.blocks.iter().map(rb_expected).collect::<Vec<_>>(),
        }),
        PacketSpec::Rr(s) => json!({
            "type": "RR", "count": s.blocks.len(), "n_reports": s.blocks.len(), "padding": opt_pad(s.padding),
            "ssrc": s.ssrc,
            "blocks": s.blocks.iter().map(rb_expected).collect::<Vec<_>>(),
        }),
        PacketSpec::Sdes(s) => json!({
            "type": "SDES", "count": s.chunks.len(), "padding": opt_pad(s.padding),
            "chunks": s.chunks.iter().map(|c| json!({
                "ssrc": c.ssrc,
                "items": c.items.iter().map(|it| json!({
                    "type": it.ty,
                    "prefix": if it.ty == 8 { hex(&it.prefix) } else { String::new() },
                    "value": hex(it.value.as_bytes()),
                })).collect::<Vec<_>>(),
            })).collect::<Vec<_>>(),
        }),
        PacketSpec::Bye(s) => json!({
            "type": "BYE", "count": s.sources.len(), "padding": opt_pad(s.padding), "sources": s.sources,
            "reason": match &s.reason { Some(r) if !r.is_empty() => json!(hex(r.as_bytes())), _ => Value::Null },
        }),
        PacketSpec::App(s) => {
            let mut name = [0u8; 4];
            for (i, b) in s.name.bytes().take(4).enumerate() {
                name[i] = b;
            }
            json!({ "type": "APP", "subtype": s.subtype, "padding": opt_pad(s.padding), "ssrc": s.ssrc, "name": hex(&name), "data": hex(&s.data) })
        }
        PacketSpec::Fb(s) => {
            let fci = match &s.fci {
                FciSpec::Nack(_) => json!({ "nack": s.fci.nack_set().unwrap().into_iter().collect::<Vec<u16>>() }),
                FciSpec::Pli => json!("pli"),
                FciSpec::Sli(v) => json!({ "sli": v.iter().map(|(a, n, p)| sli_expected(*a, *n, *p)).collect::<Vec<_>>() }),
                FciSpec::Rpsi { pt, data, overrun } => {
                    let bits = bits_of(data, *overrun as usize).unwrap_or_default();
                    json!({ "rpsi": { "pt": pt, "bits": bits_string(&bits) } })
                }
                FciSpec::Fir(_) => json!({ "fir": s.fci.fir_map().unwrap().into_iter().collect::<Vec<(u32, u8)>>() }),
            };
            json!({
                "type": if s.kind == FbKind::Transport { "TFB" } else { "PFB" },
                "format": s.fci.format(), "padding": opt_pad(s.padding), "sender": s.sender, "media": s.media, "fci": fci,
            })
        }
        PacketSpec::Unknown(_) | PacketSpec::Custom(_) => {
            let bytes = ref_encode(p);
            json!({ "type": "UNKNOWN", "pt": bytes[1], "count": bytes[0] & 31, "bytes": hex(&bytes) })
        }
        PacketSpec::Compound(_) => Value::Null,
    }
}

/// First path at which two JSON values differ (indices replaced by `[]` in the short form).
pub fn diff(a: &Value, b: &Value) -> Option<(String, String)> {
    fn go(a: &Value, b: &Value, path: &mut String, short: &mut String) -> Option<String> {
        match (a, b) {
            (Value::Object(x), Value::Object(y)) => {
                for (k, va) in x {
                    let (pl, sl) = (path.len(), short.len());
                    path.push('.');
                    path.push_str(k);
                    short.push('.');
                    short.push_str(k);
                    match y.get(k) {
                        None => return Some(format!("{path}: expected {va}, missing")),
                        Some(vb) => {
                            if let Some(d) = go(va, vb, path, short) {
                                return Some(d);
                            }
                        }
                    }
                    path.truncate(pl);
                    short.truncate(sl);
                }
                for k in y.keys() {
                    if !x.contains_key(k) {
                        short.push('.');
                        short.push_str(k);
                        return Some(format!("{path}.{k}: unexpected {}", y[k]));
                    }
                }
                None
            }
            (Value::Array(x), Value::Array(y)) => {
                if x.len() != y.len() {
                    short.push_str(".len");
                    return Some(format!("{path}: expected {} elements, got {}", x.len(), y.len()));
                }
                for (i, (va, vb)) in x.iter().zip(y).enumerate() {
                    let (pl, sl) = (path.len(), short.len());
                    path.push_str(&format!("[{i}]"));
                    short.push_str("[]");
                    if let Some(d) = go(va, vb, path, short) {
                        return Some(d);
                    }
                    path.truncate(pl);
                    short.truncate(sl);
                }
                None
            }
            _ => {
                if a == b {
                    None
                } else {
                    let (sa, sb) = (a.to_string(), b.to_string());
                    Some(format!("{path}: expected {}, got {}", crate::run::one_line(&sa, 300), crate::run::one_line(&sb, 300)))
                }
            }
        }
    }
    let mut path = String::new();
    let mut short = String::new();
    go(a, b, &mut path, &mut short).map(|d| (short, d))
}
