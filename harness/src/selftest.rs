//! The reference model is the trusted base of every differential check, so each run starts by
//! checking it against byte-exact vectors taken from the repository's own tests and against
//! images assembled by hand from the RFC figures. A failure here is a broken harness (exit 2),
//! never a VIOLATION.

use crate::model::*;
use std::collections::BTreeSet;

fn rb0(ssrc: u32) -> RbSpec {
    RbSpec { ssrc, ..Default::default() }
}

fn fb(kind: FbKind, fci: FciSpec, padding: u8) -> PacketSpec {
    PacketSpec::Fb(FbSpec { kind, sender: 0x98765432, media: 0x10fedcba, fci, padding })
}

pub fn vectors() -> Vec<(&'static str, PacketSpec, &'static str)> {
    let z24 = "000000000000000000000000000000000000000000000000";
    let _ = z24;
    vec![
        ("rr empty (receiver.rs build_empty_rr)", PacketSpec::Rr(RrSpec { ssrc: 0x91827364, blocks: vec![], padding: 0 }), "80c9000191827364"),
        (
            "rr 2 blocks padded (receiver.rs build_2_blocks_padded_rr)",
            PacketSpec::Rr(RrSpec { ssrc: 0x91827364, blocks: vec![rb0(0x1234567), rb0(0x1234568)], padding: 4 }),
            "a2c9000e91827364 01234567 0000000000000000000000000000000000000000 01234568 0000000000000000000000000000000000000000 00000004",
        ),
        (
            "sr 2 blocks (sender.rs build_2_blocks_sr)",
            PacketSpec::Sr(SrSpec {
                ssrc: 0x91827364,
                ntp: 0x89abcdef02244668,
                rtp: 0x8aaccee0,
                packet_count: 0xf1e2d3c4,
                octet_count: 0xb5a69788,
                blocks: vec![rb0(0x1234567), rb0(0x1234568)],
                padding: 0,
            }),
            "82c8001291827364 89abcdef02244668 8aaccee0 f1e2d3c4 b5a69788 01234567 0000000000000000000000000000000000000000 01234568 0000000000000000000000000000000000000000",
        ),
        (
            "sr 2 blocks padded (sender.rs build_2_blocks_padded_sr)",
            PacketSpec::Sr(SrSpec { ssrc: 0x91827364, blocks: vec![rb0(0x1234567), rb0(0x1234568)], padding: 4, ..Default::default() }),
            "a2c8001391827364 0000000000000000 00000000 00000000 00000000 01234567 0000000000000000000000000000000000000000 01234568 0000000000000000000000000000000000000000 00000004",
        ),
        (
            "report block fields (report_block.rs parse_report_block, inside an RR)",
            PacketSpec::Rr(RrSpec {
                ssrc: 1,
                blocks: vec![RbSpec {
                    ssrc: 0x01234567,
                    fraction_lost: 0x89,
                    cumulative_lost: 0xabcdef,
                    ext_seq: 0x02244668,
                    jitter: 0x8aaccee0,
                    lsr: 0xf1d3b597,
                    dlsr: 0x795b3d1f,
                }],
                padding: 0,
            }),
            "81c9000700000001 0123456789abcdef022446688aaccee0f1d3b597795b3d1f",
        ),
        (
            "sdes 1 chunk cname/name/priv (sdes.rs build_cname_name_single_sdes_chunk)",
            PacketSpec::Sdes(SdesSpec {
                chunks: vec![ChunkSpec {
                    ssrc: 0x12345678,
                    items: vec![
                        ItemSpec { ty: 1, prefix: vec![], value: "cname".into() },
                        ItemSpec { ty: 2, prefix: vec![], value: "François".into() },
                        ItemSpec { ty: 8, prefix: b"priv-prefix".to_vec(), value: "priv-value".into() },
                    ],
                }],
                padding: 0,
            }),
            "81ca000c12345678 0105636e616d65 02094672616ec3a76f6973 08160b707269762d707265666978707269762d76616c7565 0000",
        ),
        (
            "sdes 2 chunks (sdes.rs build_multiple_sdes_chunks)",
            PacketSpec::Sdes(SdesSpec {
                chunks: vec![
                    ChunkSpec {
                        ssrc: 0x12345678,
                        items: vec![
                            ItemSpec { ty: 1, prefix: vec![], value: "cname".into() },
                            ItemSpec { ty: 2, prefix: vec![], value: "François".into() },
                        ],
                    },
                    ChunkSpec {
                        ssrc: 0x3456789a,
                        items: vec![
                            ItemSpec { ty: 3, prefix: vec![], value: "user@host".into() },
                            ItemSpec { ty: 4, prefix: vec![], value: "+33678901234".into() },
                        ],
                    },
                ],
                padding: 0,
            }),
            "82ca000e12345678 0105636e616d65 02094672616ec3a76f6973 0000 3456789a 0309757365724068 6f7374 040c2b3333363738393031323334 000000",
        ),
        (
            "sdes static (sdes.rs build_static_sdes)",
            PacketSpec::Sdes(SdesSpec {
                chunks: vec![ChunkSpec {
                    ssrc: 0x12345678,
                    items: vec![
                        ItemSpec { ty: 1, prefix: vec![], value: "cname".into() },
                        ItemSpec { ty: 2, prefix: vec![], value: "name".into() },
                    ],
                }],
                padding: 0,
            }),
            "81ca000512345678 0105636e616d65 02046e616d65 000000",
        ),
        ("sdes empty (sdes.rs parse_empty_sdes)", PacketSpec::Sdes(SdesSpec::default()), "80ca0000"),
        ("bye empty (bye.rs build_bye_empty)", PacketSpec::Bye(ByeSpec::default()), "80cb0000"),
        (
            "bye 1 source reason Bye (bye.rs build_bye_static)",
            PacketSpec::Bye(ByeSpec { sources: vec![0x12345678], reason: Some("Bye".into()), padding: 0 }),
            "81cb000212345678 03427965",
        ),
        (
            "bye 3 sources (bye.rs build_bye_3_sources)",
            PacketSpec::Bye(ByeSpec { sources: vec![0x12345678, 0x3456789a, 0x56789abc], reason: None, padding: 0 }),
            "83cb0003123456783456789a56789abc",
        ),
        (
            "bye 2 sources reason Shutdown (bye.rs build_bye_2_sources_reason)",
            PacketSpec::Bye(ByeSpec { sources: vec![0x12345678, 0x3456789a], reason: Some("Shutdown".into()), padding: 0 }),
            "82cb0005123456783456789a 08 53687574646f776e 000000",
        ),
        (
            "bye padded after empty body (compound.rs build_rr_bye_padding, second member)",
            PacketSpec::Bye(ByeSpec { sources: vec![], reason: None, padding: 4 }),
            "a0cb000100000004",
        ),
        (
            "app padded (app.rs build_app)",
            PacketSpec::App(AppSpec { ssrc: 0x91827364, subtype: 31, name: "name".into(), data: vec![1, 2, 3, 0], padding: 4 }),
            "bfcc000491827364 6e616d65 01020300 00000004",
        ),
        (
            "app short name (app.rs build_short_name)",
            PacketSpec::App(AppSpec { ssrc: 0x91827364, subtype: 31, name: "nam".into(), data: vec![], padding: 0 }),
            "9fcc000291827364 6e616d00",
        ),
        (
            "nack 2 consecutive (nack.rs)",
            fb(FbKind::Transport, FciSpec::Nack(vec![0x1234, 0x1235]), 0),
            "81cd00039876543210fedcba 12340001",
        ),
        (
            "nack 17 consecutive (nack.rs)",
            fb(FbKind::Transport, FciSpec::Nack((0..17).map(|i| 0x1234 + i).collect()), 0),
            "81cd00039876543210fedcba 1234ffff",
        ),
        (
            "nack 18 consecutive (nack.rs)",
            fb(FbKind::Transport, FciSpec::Nack((0..18).map(|i| 0x1234 + i).collect()), 0),
            "81cd00049876543210fedcba 1234ffff 12450000",
        ),
        (
            "nack every second of 12 (nack.rs nack_build_parse_12_2_timestamps)",
            fb(FbKind::Transport, FciSpec::Nack((0..12).step_by(2).map(|i| 0x1234 + i).collect()), 0),
            "81cd00039876543210fedcba 123402aa",
        ),
        ("pli (pli.rs pli_build_parse)", fb(FbKind::Payload, FciSpec::Pli, 0), "81ce00029876543210fedcba"),
        (
            "sli (sli.rs sli_build_parse)",
            fb(FbKind::Payload, FciSpec::Sli(vec![(0x1234, 0x0987, 0x25)]), 0),
            "82ce00039876543210fedcba 91a261e5",
        ),
        (
            "rpsi (rpsi.rs rpsi_build_parse)",
            fb(FbKind::Payload, FciSpec::Rpsi { pt: 96, data: vec![0xf0], overrun: 4 }, 0),
            "83ce00039876543210fedcba 0c60f000",
        ),
        (
            "fir (fir.rs fir_build_parse)",
            PacketSpec::Fb(FbSpec { kind: FbKind::Payload, sender: 0x98765432, media: 0, fci: FciSpec::Fir(vec![(0xfedcba98, 0x30)]), padding: 0 }),
            "84ce00049876543200000000 fedcba98 30000000",
        ),
        (
            "custom 242 (tests/custom_packet.rs test_build shape)",
            PacketSpec::Custom(CustomSpec { family: 0, count: 0, ssrc: 0x12345678, fixed: vec![1, 2, 3, 4], tail: vec![], padding: 0 }),
            "80f2000212345678 01020304",
        ),
        (
            "compound rr+bye padded (compound.rs build_rr_bye_padding)",
            PacketSpec::Compound(vec![
                PacketSpec::Rr(RrSpec { ssrc: 0x01234567, blocks: vec![], padding: 0 }),
                PacketSpec::Bye(ByeSpec { sources: vec![], reason: None, padding: 4 }),
            ]),
            "80c9000101234567 a0cb000100000004",
        ),
        // ---- hand-assembled from the RFC figures ----
        (
            "RFC 3550 6.5: chunk whose items end on a word boundary still gets a null word",
            PacketSpec::Sdes(SdesSpec { chunks: vec![ChunkSpec { ssrc: 0xaabbccdd, items: vec![ItemSpec { ty: 1, prefix: vec![], value: "ab".into() }] }], padding: 0 }),
            "81ca0003aabbccdd 01026162 00000000",
        ),
        (
            "RFC 3550 6.6: BYE, reason of 3 octets fills its word exactly, then padding",
            PacketSpec::Bye(ByeSpec { sources: vec![7], reason: Some("abc".into()), padding: 8 }),
            "a1cb000400000007 03616263 0000000000000008",
        ),
        (
            "RFC 3550 6.6: BYE, reason of 4 octets needs 3 fill octets",
            PacketSpec::Bye(ByeSpec { sources: vec![], reason: Some("abcd".into()), padding: 0 }),
            "80cb0002 0461626364 000000",
        ),
        (
            "RFC 4585 6.3.3: RPSI with empty bit string: PB = 16",
            fb(FbKind::Payload, FciSpec::Rpsi { pt: 127, data: vec![], overrun: 0 }, 0),
            "83ce00039876543210fedcba 107f0000",
        ),
        (
            "RFC 4585 6.3.3: RPSI, 2 octets fill the word, 3 ignored bits are cleared",
            fb(FbKind::Payload, FciSpec::Rpsi { pt: 1, data: vec![0xff, 0xff], overrun: 3 }, 4),
            "a3ce00049876543210fedcba 0301fff8 00000004",
        ),
        (
            "RFC 4585 6.3.3: RPSI, 3 octets need 3 padding octets",
            fb(FbKind::Payload, FciSpec::Rpsi { pt: 0, data: vec![1, 2, 3], overrun: 0 }, 0),
            "83ce00049876543210fedcba 1800010203000000",
        ),
        (
            "RFC 4585 6.2.1: NACK wrap of the set is not a wrap of a word: {65535, 0} takes two words",
            fb(FbKind::Transport, FciSpec::Nack(vec![65535, 0]), 0),
            "81cd00049876543210fedcba 00000000 ffff0000",
        ),
        (
            "RFC 4585 6.3.2: SLI field extremes",
            fb(FbKind::Payload, FciSpec::Sli(vec![(0x1fff, 0, 0x3f), (0, 0x1fff, 0)]), 0),
            "82ce00049876543210fedcba fff8003f 0007ffc0",
        ),
        (
            "RFC 5104 4.3.1: FIR two entries in SSRC order",
            PacketSpec::Fb(FbSpec { kind: FbKind::Payload, sender: 1, media: 0, fci: FciSpec::Fir(vec![(2, 9), (1, 255), (2, 3)]), padding: 0 }),
            "84ce00060000000100000000 00000001ff000000 0000000203000000",
        ),
        (
            "unknown type 199 with count, payload and padding",
            PacketSpec::Unknown(UnknownSpec { pt: 199, count: 5, data: vec![9, 8, 7, 6], padding: 4 }),
            "a5c70002 09080706 00000004",
        ),
    ]
}

/// Returns the list of self-test failures (empty = the model agrees with every vector).
pub fn run() -> Vec<String> {
    let mut bad = Vec::new();
    for (name, spec, hexs) in vectors() {
        let want = unhex(hexs).expect("bad hex in self-test vector");
        let got = ref_encode(&spec);
        if got != want {
            bad.push(format!("ref_encode mismatch for `{name}`:\n  want {}\n  got  {}", hex(&want), hex(&got)));
        }
        if !violations(&spec).is_empty() {
            bad.push(format!("violations() non-empty for valid vector `{name}`: {:?}", violations(&spec)));
        }
        if ref_size(&spec) != want.len() {
            bad.push(format!("ref_size mismatch for `{name}`: {} vs {}", ref_size(&spec), want.len()));
        }
    }
    // decoders against hand-computed values
    let n = ref_nack_decode(&unhex("1234ffff12450000").unwrap());
    let want: Vec<u16> = (0..18).map(|i| 0x1234 + i).collect();
    if n != want {
        bad.push(format!("ref_nack_decode: {n:?}"));
    }
    if ref_nack_decode(&unhex("fff08001").unwrap()) != vec![0xfff0, 0xfff1, 0x0000] {
        bad.push("ref_nack_decode wrap".into());
    }
    if ref_sli_decode(&unhex("91a261e5").unwrap()) != vec![(0x1234, 0x0987, 0x25)] {
        bad.push("ref_sli_decode".into());
    }
    if ref_fir_decode(&unhex("fedcba9830000000").unwrap()) != vec![(0xfedcba98, 0x30)] {
        bad.push("ref_fir_decode".into());
    }
    match ref_rpsi_decode(&unhex("0c60f000").unwrap()) {
        Some((96, bits)) if bits == vec![true, true, true, true] => {}
        other => bad.push(format!("ref_rpsi_decode: {other:?}")),
    }
    let set: BTreeSet<u16> = [1u16, 17, 18, 35, 36].into_iter().collect();
    // 17-1 = 16 fits (bit 15); 18-1 = 17 does not; 35-18 = 17 does not; 36-35 = 1 (bit 0)
    if ref_nack_words(&set) != vec![(1u16, 0x8000u16), (18, 0), (35, 1)] || ref_nack_min_words(&set) != 3 {
        bad.push(format!("ref_nack_words: {:?}", ref_nack_words(&set)));
    }
    // tiling
    if ref_tile(&unhex("80c9000101234567a0cb000100000004").unwrap()) != Some(vec![(0, 8), (8, 16)]) {
        bad.push("ref_tile".into());
    }
    if ref_tile(&unhex("80c90002012345").unwrap()).is_some() || ref_tile(&[]).is_some() {
        bad.push("ref_tile accepts a bad chain".into());
    }
    // sdes tokeniser on repo vectors
    match ref_sdes_tokenise(&unhex("81ca0002918273640102 3031").unwrap()) {
        SdesRef::Either(c, _) if c.len() == 1 && c[0].items.len() == 1 && c[0].items[0].value == b"01" => {}
        other => bad.push(format!("ref_sdes_tokenise (parse_cname_sdes): {other:?}")),
    }
    match ref_sdes_tokenise(&unhex("82ca000e123456780105636e616d6502094672616ec3a76f697300003456789a03097573657240686f7374040c2b3333363738393031323334000000").unwrap()) {
        SdesRef::MustAccept(c) if c.len() == 2 && c[0].items.len() == 2 && c[1].items.len() == 2 && c[0].wire_len == 24 && c[1].wire_len == 32 => {}
        other => bad.push(format!("ref_sdes_tokenise (parse_multiple_sdes_chunks): {other:?}")),
    }
    // padding
    if ref_pad(&unhex("80cb0000").unwrap(), 4) != unhex("a0cb000100000004").unwrap() {
        bad.push("ref_pad".into());
    }
    bad.extend(model_consistency(1500));
    bad
}

/// The reference encoder and the reference decoders / predicates were written separately; on
/// generated representable specs (fixed seed) they must agree with each other: the image of a leaf is
/// well framed for its type and has the announced size, the FCI decodes back to what was encoded, an
/// SDES image tokenises as "must accept" into the spec's chunks, a concatenation tiles at the member
/// boundaries, `ref_pad` adds exactly the padding. A disagreement is a broken harness (exit 2).
pub fn model_consistency(n: usize) -> Vec<String> {
    use crate::gen;
    use proptest::strategy::{Strategy, ValueTree};
    use proptest::test_runner::{Config, RngAlgorithm, TestRng, TestRunner};
    let mut bad = Vec::new();
    let rng = TestRng::from_seed(RngAlgorithm::ChaCha, &[0x5e; 32]);
    let mut runner = TestRunner::new_with_rng(Config { failure_persistence: None, ..Config::default() }, rng);
    let leafs = gen::leaf_spec(false, false);
    let mut images: Vec<Vec<u8>> = Vec::new();
    for k in 0..n {
        let spec = match leafs.new_tree(&mut runner) {
            Ok(t) => t.current(),
            Err(_) => continue,
        };
        if !violations(&spec).is_empty() {
            bad.push(format!("generator of representable specs produced {:?} with violations {:?}", spec.long_name(), violations(&spec)));
            break;
        }
        let img = ref_encode(&spec);
        if img.len() != ref_size(&spec) {
            bad.push(format!("ref_size {} != encoded length {} for a {}", ref_size(&spec), img.len(), spec.long_name()));
            break;
        }
        let min = match &spec {
            PacketSpec::Sr(_) => 28,
            PacketSpec::Rr(_) => 8,
            PacketSpec::App(_) | PacketSpec::Fb(_) => 12,
            _ => 4,
        };
        match ref_framing(&img, Some(spec.pt()), min) {
            Framing::Well { padding } if padding == spec.padding() => {}
            other => {
                bad.push(format!("ref_framing of ref_encode({}) = {:?}, padding configured {}", spec.long_name(), framing_name(&other), spec.padding()));
                break;
            }
        }
        match &spec {
            PacketSpec::Fb(f) => {
                let fci = &img[12..img.len() - f.padding as usize];
                let ok = match &f.fci {
                    FciSpec::Nack(_) => ref_nack_decode(fci) == f.fci.nack_set().unwrap().into_iter().collect::<Vec<u16>>(),
                    FciSpec::Pli => fci.is_empty(),
                    FciSpec::Sli(v) => ref_sli_decode(fci) == *v,
                    FciSpec::Fir(_) => {
                        let m: std::collections::BTreeMap<u32, u8> = ref_fir_decode(fci).into_iter().collect();
                        Some(m) == f.fci.fir_map()
                    }
                    FciSpec::Rpsi { pt, data, overrun } => match ref_rpsi_decode(fci) {
                        Some((p, bits)) => p == *pt && Some(bits) == bits_of(data, *overrun as usize),
                        None => false,
                    },
                };
                if !ok {
                    bad.push(format!("reference FCI decoder disagrees with the reference encoder for {:?}: {}", f.fci, hex(fci)));
                    break;
                }
            }
            PacketSpec::Sdes(s) => match ref_sdes_tokenise(&img) {
                SdesRef::MustAccept(chunks) => {
                    let same = chunks.len() == s.chunks.len()
                        && chunks.iter().zip(&s.chunks).all(|(t, c)| {
                            t.ssrc == c.ssrc
                                && t.items.len() == c.items.len()
                                && t.wire_len == ref_encode_chunk(c).len()
                                && t.items.iter().zip(&c.items).all(|(ti, ci)| ti.ty == ci.ty && ti.value == ci.value.as_bytes() && (ci.ty != 8 || ti.prefix == ci.prefix))
                        });
                    if !same {
                        bad.push(format!("ref_sdes_tokenise(ref_encode(sdes)) differs from the spec: {}", hex(&img)));
                        break;
                    }
                }
                _ => {
                    bad.push(format!("ref_sdes_tokenise does not class ref_encode(sdes) as must-accept: {}", hex(&img)));
                    break;
                }
            },
            _ => {}
        }
        if spec.padding() == 0 && k % 3 == 0 {
            let p = ref_pad(&img, 8);
            let mut padded = spec.clone();
            padded.set_padding(8);
            if p != ref_encode(&padded) {
                bad.push(format!("ref_pad(ref_encode(spec), 8) != ref_encode(spec with padding 8) for a {}", spec.long_name()));
                break;
            }
        }
        if images.len() < 4 {
            images.push(img);
        } else {
            let cat: Vec<u8> = images.iter().flatten().copied().collect();
            let mut at = 0usize;
            let want: Vec<(usize, usize)> = images
                .iter()
                .map(|i| {
                    let r = (at, at + i.len());
                    at += i.len();
                    r
                })
                .collect();
            if ref_tile(&cat) != Some(want) {
                bad.push("ref_tile does not tile a concatenation of reference images at the member boundaries".into());
                break;
            }
            images.clear();
        }
    }
    bad
}

fn framing_name(f: &Framing) -> String {
    match f {
        Framing::Well { padding } => format!("Well{{padding:{padding}}}"),
        Framing::PaddingZone => "PaddingZone".into(),
        Framing::Bad(w) => format!("Bad({w})"),
    }
}
