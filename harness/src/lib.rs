pub mod drive;
pub mod gen;
pub mod model;
pub mod oracle;
pub mod run;
pub mod selftest;
pub mod third_party;
