//! Plain-data packet *specs* and an INDEPENDENT encoder / set of decoders written from the
//! RFC text (RFC 3550 §6.4-6.7, RFC 4585 §6.1-6.3, RFC 5104 §4.3.1).
//!
//! Style rule: nothing in this file calls into `rtcp_types`. The encoder appends to a
//! `Vec<u8>`; the decoders read at RFC offsets with their own helpers.

use serde::{Deserialize, Serialize};
use std::collections::{BTreeMap, BTreeSet};

// ---------------------------------------------------------------------------------------------
// specs
// ---------------------------------------------------------------------------------------------

#[derive(Clone, Debug, PartialEq, Eq, Hash, Serialize, Deserialize, Default)]
pub struct RbSpec {
    pub ssrc: u32,
    pub fraction_lost: u8,
    pub cumulative_lost: u32,
    pub ext_seq: u32,
    pub jitter: u32,
    pub lsr: u32,
    pub dlsr: u32,
}

#[derive(Clone, Debug, PartialEq, Eq, Hash, Serialize, Deserialize, Default)]
pub struct SrSpec {
    pub ssrc: u32,
    pub ntp: u64,
    pub rtp: u32,
    pub packet_count: u32,
    pub octet_count: u32,
    pub blocks: Vec<RbSpec>,
    pub padding: u8,
}

#[derive(Clone, Debug, PartialEq, Eq, Hash, Serialize, Deserialize, Default)]
pub struct RrSpec {
    pub ssrc: u32,
    pub blocks: Vec<RbSpec>,
    pub padding: u8,
}

#[derive(Clone, Debug, PartialEq, Eq, Hash, Serialize, Deserialize, Default)]
pub struct ItemSpec {
    pub ty: u8,
    /// only meaningful for PRIV (type 8); the builder documents "no effect" otherwise
    pub prefix: Vec<u8>,
    pub value: String,
}

#[derive(Clone, Debug, PartialEq, Eq, Hash, Serialize, Deserialize, Default)]
pub struct ChunkSpec {
    pub ssrc: u32,
    pub items: Vec<ItemSpec>,
}

#[derive(Clone, Debug, PartialEq, Eq, Hash, Serialize, Deserialize, Default)]
pub struct SdesSpec {
    pub chunks: Vec<ChunkSpec>,
    pub padding: u8,
}

#[derive(Clone, Debug, PartialEq, Eq, Hash, Serialize, Deserialize, Default)]
pub struct ByeSpec {
    pub sources: Vec<u32>,
    /// None = never set; Some("") = set to the empty string (same wire meaning)
    pub reason: Option<String>,
    pub padding: u8,
}

#[derive(Clone, Debug, PartialEq, Eq, Hash, Serialize, Deserialize, Default)]
pub struct AppSpec {
    pub ssrc: u32,
    pub subtype: u8,
    pub name: String,
    pub data: Vec<u8>,
    pub padding: u8,
}

#[derive(Clone, Copy, Debug, PartialEq, Eq, Hash, Serialize, Deserialize)]
pub enum FbKind {
    Transport,
    Payload,
}

impl FbKind {
    pub fn pt(self) -> u8 {
        match self {
            FbKind::Transport => 205,
            FbKind::Payload => 206,
        }
    }
}

#[derive(Clone, Debug, PartialEq, Eq, Hash, Serialize, Deserialize)]
pub enum FciSpec {
    /// sequence numbers in the order they are added (duplicates allowed: adding is idempotent)
    Nack(Vec<u16>),
    Pli,
    /// (first, number, picture id) in order
    Sli(Vec<(u16, u16, u8)>),
    Rpsi { pt: u8, data: Vec<u8>, overrun: u8 },
    /// (ssrc, sequence) in the order they are added (re-adding an SSRC keeps the last sequence)
    Fir(Vec<(u32, u8)>),
}

impl FciSpec {
    /// the feedback kind this FCI belongs in
    pub fn home(&self) -> FbKind {
        match self {
            FciSpec::Nack(_) => FbKind::Transport,
            _ => FbKind::Payload,
        }
    }
    pub fn format(&self) -> u8 {
        match self {
            FciSpec::Nack(_) => 1,
            FciSpec::Pli => 1,
            FciSpec::Sli(_) => 2,
            FciSpec::Rpsi { .. } => 3,
            FciSpec::Fir(_) => 4,
        }
    }
    pub fn name(&self) -> &'static str {
        match self {
            FciSpec::Nack(_) => "NACK",
            FciSpec::Pli => "PLI",
            FciSpec::Sli(_) => "SLI",
            FciSpec::Rpsi { .. } => "RPSI",
            FciSpec::Fir(_) => "FIR",
        }
    }
    pub fn nack_set(&self) -> Option<BTreeSet<u16>> {
        match self {
            FciSpec::Nack(v) => Some(v.iter().copied().collect()),
            _ => None,
        }
    }
    pub fn fir_map(&self) -> Option<BTreeMap<u32, u8>> {
        match self {
            FciSpec::Fir(v) => {
                let mut m = BTreeMap::new();
                for (s, q) in v {
                    m.insert(*s, *q);
                }
                Some(m)
            }
            _ => None,
        }
    }
}

#[derive(Clone, Debug, PartialEq, Eq, Hash, Serialize, Deserialize)]
pub struct FbSpec {
    pub kind: FbKind,
    pub sender: u32,
    pub media: u32,
    pub fci: FciSpec,
    pub padding: u8,
}

#[derive(Clone, Debug, PartialEq, Eq, Hash, Serialize, Deserialize, Default)]
pub struct UnknownSpec {
    pub pt: u8,
    pub count: u8,
    pub data: Vec<u8>,
    pub padding: u8,
}

/// A packet type defined outside the crate (harness/src/third_party.rs): header, SSRC, a fixed
/// body of `MIN-8` bytes and a variable word-aligned tail.
#[derive(Clone, Debug, PartialEq, Eq, Hash, Serialize, Deserialize, Default)]
pub struct CustomSpec {
    /// index into third_party::FAMILY
    pub family: usize,
    pub count: u8,
    pub ssrc: u32,
    /// exactly MIN-8 bytes (0 when MIN == 4: then there is no SSRC either)
    pub fixed: Vec<u8>,
    /// multiple of 4 bytes
    pub tail: Vec<u8>,
    pub padding: u8,
}

/// (packet type, minimum length) of the third-party family
pub const CUSTOM_FAMILY: [(u8, usize); 6] = [(242, 12), (192, 4), (207, 8), (209, 28), (0, 4), (255, 16)];

#[derive(Clone, Debug, PartialEq, Eq, Hash, Serialize, Deserialize)]
pub enum PacketSpec {
    Sr(SrSpec),
    Rr(RrSpec),
    Sdes(SdesSpec),
    Bye(ByeSpec),
    App(AppSpec),
    Fb(FbSpec),
    Unknown(UnknownSpec),
    Custom(CustomSpec),
    Compound(Vec<PacketSpec>),
}

impl PacketSpec {
    pub fn kind_name(&self) -> &'static str {
        match self {
            PacketSpec::Sr(_) => "SR",
            PacketSpec::Rr(_) => "RR",
            PacketSpec::Sdes(_) => "SDES",
            PacketSpec::Bye(_) => "BYE",
            PacketSpec::App(_) => "APP",
            PacketSpec::Fb(f) => match f.kind {
                FbKind::Transport => "TFB",
                FbKind::Payload => "PFB",
            },
            PacketSpec::Unknown(_) => "UNKNOWN",
            PacketSpec::Custom(_) => "CUSTOM",
            PacketSpec::Compound(_) => "COMPOUND",
        }
    }
    pub fn long_name(&self) -> String {
        match self {
            PacketSpec::Fb(f) => format!("{}+{}", self.kind_name(), f.fci.name()),
            _ => self.kind_name().to_string(),
        }
    }
    /// padding requested on this (leaf) packet; for a compound: of its last member
    pub fn padding(&self) -> u8 {
        match self {
            PacketSpec::Sr(s) => s.padding,
            PacketSpec::Rr(s) => s.padding,
            PacketSpec::Sdes(s) => s.padding,
            PacketSpec::Bye(s) => s.padding,
            PacketSpec::App(s) => s.padding,
            PacketSpec::Fb(s) => s.padding,
            PacketSpec::Unknown(s) => s.padding,
            PacketSpec::Custom(s) => s.padding,
            PacketSpec::Compound(v) => v.last().map(|p| p.padding()).unwrap_or(0),
        }
    }
    pub fn set_padding(&mut self, p: u8) {
        match self {
            PacketSpec::Sr(s) => s.padding = p,
            PacketSpec::Rr(s) => s.padding = p,
            PacketSpec::Sdes(s) => s.padding = p,
            PacketSpec::Bye(s) => s.padding = p,
            PacketSpec::App(s) => s.padding = p,
            PacketSpec::Fb(s) => s.padding = p,
            PacketSpec::Unknown(s) => s.padding = p,
            PacketSpec::Custom(s) => s.padding = p,
            PacketSpec::Compound(v) => {
                if let Some(l) = v.last_mut() {
                    l.set_padding(p)
                }
            }
        }
    }
    /// leaves in order (compounds flattened)
    pub fn leaves(&self) -> Vec<&PacketSpec> {
        match self {
            PacketSpec::Compound(v) => v.iter().flat_map(|p| p.leaves()).collect(),
            other => vec![other],
        }
    }
    /// the packet type byte of a leaf
    pub fn pt(&self) -> u8 {
        match self {
            PacketSpec::Sr(_) => 200,
            PacketSpec::Rr(_) => 201,
            PacketSpec::Sdes(_) => 202,
            PacketSpec::Bye(_) => 203,
            PacketSpec::App(_) => 204,
            PacketSpec::Fb(f) => f.kind.pt(),
            PacketSpec::Unknown(u) => u.pt,
            PacketSpec::Custom(c) => CUSTOM_FAMILY[c.family].0,
            PacketSpec::Compound(_) => 0,
        }
    }
}

// ---------------------------------------------------------------------------------------------
// reference encoder
// ---------------------------------------------------------------------------------------------

fn put16(out: &mut Vec<u8>, v: u16) {
    out.push((v >> 8) as u8);
    out.push(v as u8);
}
fn put32(out: &mut Vec<u8>, v: u32) {
    put16(out, (v >> 16) as u16);
    put16(out, v as u16);
}
fn put64(out: &mut Vec<u8>, v: u64) {
    put32(out, (v >> 32) as u32);
    put32(out, v as u32);
}

/// Common header with a zero length field; `seal` patches the length afterwards.
fn open(out: &mut Vec<u8>, padding: u8, count: u8, pt: u8) -> usize {
    let start = out.len();
    let mut b0 = 2u8 << 6;
    if padding != 0 {
        b0 |= 1 << 5;
    }
    b0 |= count & 31;
    out.push(b0);
    out.push(pt);
    out.push(0);
    out.push(0);
    start
}

/// Append the RFC 3550 padding trailer and patch the 16-bit length (32-bit words minus one).
fn seal(out: &mut Vec<u8>, start: usize, padding: u8) {
    if padding != 0 {
        for _ in 1..padding {
            out.push(0);
        }
        out.push(padding);
    }
    let total = out.len() - start;
    debug_assert!(total % 4 == 0, "reference encoder produced an unaligned packet");
    let words = (total / 4).wrapping_sub(1) as u16;
    out[start + 2] = (words >> 8) as u8;
    out[start + 3] = words as u8;
}

fn put_block(out: &mut Vec<u8>, b: &RbSpec) {
    put32(out, b.ssrc);
    out.push(b.fraction_lost);
    out.push((b.cumulative_lost >> 16) as u8);
    out.push((b.cumulative_lost >> 8) as u8);
    out.push(b.cumulative_lost as u8);
    put32(out, b.ext_seq);
    put32(out, b.jitter);
    put32(out, b.lsr);
    put32(out, b.dlsr);
}

/// The encoded image of one SDES chunk (SSRC, items, NUL terminator, zero fill to 32 bits).
pub fn ref_encode_chunk(c: &ChunkSpec) -> Vec<u8> {
    let mut out = Vec::new();
    put32(&mut out, c.ssrc);
    for it in &c.items {
        out.extend_from_slice(&ref_encode_item(it));
    }
    out.push(0);
    while out.len() % 4 != 0 {
        out.push(0);
    }
    out
}

/// The encoded image of one SDES item.
pub fn ref_encode_item(it: &ItemSpec) -> Vec<u8> {
    let mut out = Vec::new();
    out.push(it.ty);
    let v = it.value.as_bytes();
    if it.ty == 8 {
        out.push((1 + it.prefix.len() + v.len()) as u8);
        out.push(it.prefix.len() as u8);
        out.extend_from_slice(&it.prefix);
        out.extend_from_slice(v);
    } else {
        out.push(v.len() as u8);
        out.extend_from_slice(v);
    }
    out
}

/// Minimum-length generic NACK words for a set: greedy over the ascending sequence, a word
/// covers its PID and the 16 following values.
pub fn ref_nack_words(set: &BTreeSet<u16>) -> Vec<(u16, u16)> {
    let mut words: Vec<(u16, u16)> = Vec::new();
    for &s in set {
        match words.last_mut() {
            Some((pid, blp)) if s - *pid <= 16 && s != *pid => {
                *blp |= 1 << (s - *pid - 1);
            }
            _ => words.push((s, 0)),
        }
    }
    words
}

pub fn ref_nack_min_words(set: &BTreeSet<u16>) -> usize {
    ref_nack_words(set).len()
}

pub fn ref_encode_fci(f: &FciSpec) -> Vec<u8> {
    let mut out = Vec::new();
    match f {
        FciSpec::Nack(_) => {
            for (pid, blp) in ref_nack_words(&f.nack_set().unwrap()) {
                put16(&mut out, pid);
                put16(&mut out, blp);
            }
        }
        FciSpec::Pli => {}
        FciSpec::Sli(v) => {
            for (first, number, pic) in v {
                let w: u32 = ((*first as u32 & 0x1fff) << 19) | ((*number as u32 & 0x1fff) << 6) | (*pic as u32 & 0x3f);
                put32(&mut out, w);
            }
        }
        FciSpec::Rpsi { pt, data, overrun } => {
            let unpadded = 2 + data.len();
            let padded = (unpadded + 3) / 4 * 4;
            let pb = 8 * (padded - unpadded) + *overrun as usize;
            out.push(pb as u8);
            out.push(pt & 0x7f);
            out.extend_from_slice(data);
            if !data.is_empty() && *overrun > 0 {
                let keep: u16 = 0xff00u16 >> (8 - (*overrun).min(8));
                let last = out.len() - 1;
                out[last] &= (keep & 0xff) as u8;
            }
            while out.len() < padded {
                out.push(0);
            }
        }
        FciSpec::Fir(_) => {
            for (ssrc, seq) in f.fir_map().unwrap() {
                put32(&mut out, ssrc);
                out.push(seq);
                out.push(0);
                out.push(0);
                out.push(0);
            }
        }
    }
    out
}

/// The RFC wire image of a configuration that satisfies every representability rule.
pub fn ref_encode(p: &PacketSpec) -> Vec<u8> {
    let mut out = Vec::new();
    ref_encode_into(&mut out, p);
    out
}

fn ref_encode_into(out: &mut Vec<u8>, p: &PacketSpec) {
    match p {
        PacketSpec::Sr(s) => {
            let st = open(out, s.padding, s.blocks.len() as u8, 200);
            put32(out, s.ssrc);
            put64(out, s.ntp);
            put32(out, s.rtp);
            put32(out, s.packet_count);
            put32(out, s.octet_count);
            for b in &s.blocks {
                put_block(out, b);
            }
            seal(out, st, s.padding);
        }
        PacketSpec::Rr(s) => {
            let st = open(out, s.padding, s.blocks.len() as u8, 201);
            put32(out, s.ssrc);
            for b in &s.blocks {
                put_block(out, b);
            }
            seal(out, st, s.padding);
        }
        PacketSpec::Sdes(s) => {
            let st = open(out, s.padding, s.chunks.len() as u8, 202);
            for c in &s.chunks {
                out.extend_from_slice(&ref_encode_chunk(c));
            }
            seal(out, st, s.padding);
        }
        PacketSpec::Bye(s) => {
            let st = open(out, s.padding, s.sources.len() as u8, 203);
            for x in &s.sources {
                put32(out, *x);
            }
            if let Some(r) = &s.reason {
                if !r.is_empty() {
                    out.push(r.len() as u8);
                    out.extend_from_slice(r.as_bytes());
                    while (out.len() - st) % 4 != 0 {
                        out.push(0);
                    }
                }
            }
            seal(out, st, s.padding);
        }
        PacketSpec::App(s) => {
            let st = open(out, s.padding, s.subtype, 204);
            put32(out, s.ssrc);
            let n = s.name.as_bytes();
            for i in 0..4 {
                out.push(if i < n.len() { n[i] } else { 0 });
            }
            out.extend_from_slice(&s.data);
            seal(out, st, s.padding);
        }
        PacketSpec::Fb(s) => {
            let st = open(out, s.padding, s.fci.format(), s.kind.pt());
            put32(out, s.sender);
            put32(out, s.media);
            out.extend_from_slice(&ref_encode_fci(&s.fci));
            seal(out, st, s.padding);
        }
        PacketSpec::Unknown(s) => {
            let st = open(out, s.padding, s.count, s.pt);
            out.extend_from_slice(&s.data);
            seal(out, st, s.padding);
        }
        PacketSpec::Custom(s) => {
            let (pt, min) = CUSTOM_FAMILY[s.family];
            let st = open(out, s.padding, s.count, pt);
            if min >= 8 {
                put32(out, s.ssrc);
                out.extend_from_slice(&s.fixed);
            }
            out.extend_from_slice(&s.tail);
            seal(out, st, s.padding);
        }
        PacketSpec::Compound(v) => {
            for m in v {
                ref_encode_into(out, m);
            }
        }
    }
}

/// The alternative RFC image of a BYE whose reason is the empty string *and was set*:
/// a zero length octet followed by three fill octets.
pub fn ref_encode_bye_empty_reason_present(s: &ByeSpec) -> Vec<u8> {
    let mut out = Vec::new();
    let st = open(&mut out, s.padding, s.sources.len() as u8, 203);
    for x in &s.sources {
        put32(&mut out, *x);
    }
    out.extend_from_slice(&[0, 0, 0, 0]);
    seal(&mut out, st, s.padding);
    out
}

// ---------------------------------------------------------------------------------------------
// representability rules (C16)
// ---------------------------------------------------------------------------------------------

#[derive(Clone, Debug, PartialEq, Eq, Hash, Serialize, Deserialize)]
pub enum Rule {
    PaddingNotMultipleOf4(u8),
    CountAbove31(u8),
    SubtypeAbove31(u8),
    TooManyBlocks(usize),
    TooManySources(usize),
    TooManyChunks(usize),
    CumulativeLost(u32),
    AppName,
    PayloadNotAligned(usize),
    ReasonTooLong(usize),
    SdesValueTooLong(usize),
    /// (prefix len, value len)
    PrivTooLong(usize, usize),
    RpsiPayloadType(u8),
    RpsiIgnoredBits(u8),
    FciInWrongKind,
    NonLastPadding,
    /// size in bytes that does not fit 65536 words
    TotalSize(usize),
}

impl Rule {
    pub fn short(&self) -> &'static str {
        match self {
            Rule::PaddingNotMultipleOf4(_) => "padding%4",
            Rule::CountAbove31(_) => "count>31",
            Rule::SubtypeAbove31(_) => "subtype>31",
            Rule::TooManyBlocks(_) => "blocks>31",
            Rule::TooManySources(_) => "sources>31",
            Rule::TooManyChunks(_) => "chunks>31",
            Rule::CumulativeLost(_) => "cumlost>24bit",
            Rule::AppName => "app-name",
            Rule::PayloadNotAligned(_) => "payload%4",
            Rule::ReasonTooLong(_) => "reason>255",
            Rule::SdesValueTooLong(_) => "sdes-value>255",
            Rule::PrivTooLong(_, _) => "priv>254",
            Rule::RpsiPayloadType(_) => "rpsi-pt>127",
            Rule::RpsiIgnoredBits(_) => "rpsi-bits",
            Rule::FciInWrongKind => "fci-kind",
            Rule::NonLastPadding => "non-last-padding",
            Rule::TotalSize(_) => "total-size",
        }
    }
}

pub const MAX_PACKET_BYTES: usize = 65536 * 4;

/// Size in bytes of the image the RFC assigns to a configuration, ignoring every limit
/// (used for the total-size rule; meaningful only if no other rule is violated).
pub fn ref_size(p: &PacketSpec) -> usize {
    match p {
        PacketSpec::Sr(s) => 28 + 24 * s.blocks.len() + s.padding as usize,
        PacketSpec::Rr(s) => 8 + 24 * s.blocks.len() + s.padding as usize,
        PacketSpec::Sdes(s) => {
            let mut n = 4 + s.padding as usize;
            for c in &s.chunks {
                let mut k = 4;
                for it in &c.items {
                    k += 2 + it.value.len() + if it.ty == 8 { 1 + it.prefix.len() } else { 0 };
                }
                k += 1;
                n += (k + 3) / 4 * 4;
            }
            n
        }
        PacketSpec::Bye(s) => {
            let mut n = 4 + 4 * s.sources.len();
            if let Some(r) = &s.reason {
                if !r.is_empty() {
                    n += (1 + r.len() + 3) / 4 * 4;
                }
            }
            n + s.padding as usize
        }
        PacketSpec::App(s) => 12 + s.data.len() + s.padding as usize,
        PacketSpec::Fb(s) => {
            let f = match &s.fci {
                FciSpec::Nack(_) => 4 * ref_nack_min_words(&s.fci.nack_set().unwrap()),
                FciSpec::Pli => 0,
                FciSpec::Sli(v) => 4 * v.len(),
                FciSpec::Rpsi { data, .. } => (2 + data.len() + 3) / 4 * 4,
                FciSpec::Fir(_) => 8 * s.fci.fir_map().unwrap().len(),
            };
            12 + f + s.padding as usize
        }
        PacketSpec::Unknown(s) => 4 + s.data.len() + s.padding as usize,
        PacketSpec::Custom(s) => CUSTOM_FAMILY[s.family].1 + s.tail.len() + s.padding as usize,
        PacketSpec::Compound(v) => v.iter().map(ref_size).sum(),
    }
}

/// Every representability rule of C16 that the configuration violates (empty = representable).
pub fn violations(p: &PacketSpec) -> Vec<Rule> {
    let mut v = Vec::new();
    collect_violations(p, &mut v);
    v
}

fn blocks_rules(blocks: &[RbSpec], v: &mut Vec<Rule>) {
    if blocks.len() > 31 {
        v.push(Rule::TooManyBlocks(blocks.len()));
    }
    for b in blocks {
        if b.cumulative_lost > 0x00ff_ffff {
            v.push(Rule::CumulativeLost(b.cumulative_lost));
        }
    }
}

fn collect_violations(p: &PacketSpec, v: &mut Vec<Rule>) {
    let before = v.len();
    if !matches!(p, PacketSpec::Compound(_)) && p.padding() % 4 != 0 {
        v.push(Rule::PaddingNotMultipleOf4(p.padding()));
    }
    match p {
        PacketSpec::Sr(s) => blocks_rules(&s.blocks, v),
        PacketSpec::Rr(s) => blocks_rules(&s.blocks, v),
        PacketSpec::Sdes(s) => {
            if s.chunks.len() > 31 {
                v.push(Rule::TooManyChunks(s.chunks.len()));
            }
            for c in &s.chunks {
                for it in &c.items {
                    if it.ty == 8 {
                        if it.prefix.len() + it.value.len() > 254 {
                            v.push(Rule::PrivTooLong(it.prefix.len(), it.value.len()));
                        }
                    } else if it.value.len() > 255 {
                        v.push(Rule::SdesValueTooLong(it.value.len()));
                    }
                }
            }
        }
        PacketSpec::Bye(s) => {
            if s.sources.len() > 31 {
                v.push(Rule::TooManySources(s.sources.len()));
            }
            if let Some(r) = &s.reason {
                if r.len() > 255 {
                    v.push(Rule::ReasonTooLong(r.len()));
                }
            }
        }
        PacketSpec::App(s) => {
            if s.subtype > 31 {
                v.push(Rule::SubtypeAbove31(s.subtype));
            }
            if s.name.len() > 4 || !s.name.bytes().all(|b| b < 0x80) {
                v.push(Rule::AppName);
            }
            if s.data.len() % 4 != 0 {
                v.push(Rule::PayloadNotAligned(s.data.len()));
            }
        }
        PacketSpec::Fb(s) => {
            if s.fci.home() != s.kind {
                v.push(Rule::FciInWrongKind);
            }
            if let FciSpec::Rpsi { pt, data, overrun } = &s.fci {
                if *pt > 127 {
                    v.push(Rule::RpsiPayloadType(*pt));
                }
                if *overrun > 8 || (data.is_empty() && *overrun > 0) {
                    v.push(Rule::RpsiIgnoredBits(*overrun));
                }
            }
        }
        PacketSpec::Unknown(s) => {
            if s.count > 31 {
                v.push(Rule::CountAbove31(s.count));
            }
            if s.data.len() % 4 != 0 {
                v.push(Rule::PayloadNotAligned(s.data.len()));
            }
        }
        PacketSpec::Custom(_) => {}
        PacketSpec::Compound(members) => {
            for (i, m) in members.iter().enumerate() {
                collect_violations(m, v);
                if i + 1 != members.len() && compound_member_padding(m) != 0 {
                    v.push(Rule::NonLastPadding);
                }
            }
            return;
        }
    }
    if v.len() == before {
        let n = ref_size(p);
        if n > MAX_PACKET_BYTES {
            v.push(Rule::TotalSize(n));
        }
    }
}

/// what `get_padding` of a member means for the non-last rule: a leaf's own padding, a nested
/// compound's last member's padding
pub fn compound_member_padding(m: &PacketSpec) -> u8 {
    m.padding()
}

// ---------------------------------------------------------------------------------------------
// reference readers (parser side)
// ---------------------------------------------------------------------------------------------

pub fn be16(b: &[u8], off: usize) -> u16 {
    (b[off] as u16) << 8 | b[off + 1] as u16
}
pub fn be32(b: &[u8], off: usize) -> u32 {
    (be16(b, off) as u32) << 16 | be16(b, off + 2) as u32
}
pub fn be64(b: &[u8], off: usize) -> u64 {
    (be32(b, off) as u64) << 32 | be32(b, off + 4) as u64
}

#[derive(Clone, Copy, Debug, PartialEq, Eq)]
pub struct Hdr {
    pub version: u8,
    pub p: bool,
    pub count: u8,
    pub pt: u8,
    /// 4 * (length field + 1)
    pub hl: usize,
}

/// Header of a string of at least 4 bytes.
pub fn ref_hdr(b: &[u8]) -> Hdr {
    Hdr {
        version: b[0] >> 6,
        p: b[0] & 0x20 != 0,
        count: b[0] & 0x1f,
        pt: b[1],
        hl: 4 * (be16(b, 2) as usize + 1),
    }
}

#[derive(Clone, Debug, PartialEq, Eq)]
pub enum Framing {
    /// every framing condition holds; padding count (0 if P is clear)
    Well { padding: u8 },
    /// every condition holds except that the padding count does not fit behind the minimum part,
    /// which the property does not settle
    PaddingZone,
    Bad(&'static str),
}

/// The framing conditions of C08/C19 for a packet of type `pt` (None = any) and minimum size `min`.
pub fn ref_framing(b: &[u8], pt: Option<u8>, min: usize) -> Framing {
    if b.len() < min || b.len() < 4 {
        return Framing::Bad("shorter than minimum");
    }
    let h = ref_hdr(b);
    if h.version != 2 {
        return Framing::Bad("version");
    }
    if let Some(pt) = pt {
        if h.pt != pt {
            return Framing::Bad("packet type");
        }
    }
    if h.hl != b.len() {
        return Framing::Bad("length field");
    }
    if h.p {
        let last = b[b.len() - 1];
        if last == 0 {
            return Framing::Bad("zero padding count");
        }
        if last as usize > b.len() - min {
            return Framing::PaddingZone;
        }
        Framing::Well { padding: last }
    } else {
        Framing::Well { padding: 0 }
    }
}

/// Partition of a datagram by its chain of length fields, or None if the chain does not end
/// exactly at the end (or the datagram is empty).
pub fn ref_tile(b: &[u8]) -> Option<Vec<(usize, usize)>> {
    if b.is_empty() {
        return None;
    }
    let mut tiles = Vec::new();
    let mut at = 0usize;
    while at < b.len() {
        if b.len() - at < 4 {
            return None;
        }
        let l = 4 * (be16(b, at + 2) as usize + 1);
        if l > b.len() - at {
            return None;
        }
        tiles.push((at, at + l));
        at += l;
    }
    Some(tiles)
}

/// RFC 3550 padding applied to a well-formed unpadded packet.
pub fn ref_pad(p: &[u8], n: u8) -> Vec<u8> {
    assert!(n != 0 && n % 4 == 0 && p.len() >= 4 && p[0] & 0x20 == 0);
    let mut out = p.to_vec();
    out[0] |= 0x20;
    for _ in 1..n {
        out.push(0);
    }
    out.push(n);
    let words = (out.len() / 4 - 1) as u16;
    out[2] = (words >> 8) as u8;
    out[3] = words as u8;
    out
}

// --- SDES tokenisation (three-valued) ---

#[derive(Clone, Debug, PartialEq, Eq)]
pub struct TokItem {
    pub ty: u8,
    /// the whole content (after type and length octets)
    pub content: Vec<u8>,
    /// PRIV only
    pub prefix: Vec<u8>,
    /// for PRIV: the bytes after the prefix; otherwise == content
    pub value: Vec<u8>,
}

#[derive(Clone, Debug, PartialEq, Eq)]
pub struct TokChunk {
    pub ssrc: u32,
    pub items: Vec<TokItem>,
    /// bytes the chunk occupies on the wire
    pub wire_len: usize,
}

#[derive(Clone, Debug, PartialEq, Eq)]
pub enum SdesRef {
    MustAccept(Vec<TokChunk>),
    MustReject(&'static str),
    /// only leniencies the RFC text does not settle were needed
    Either(Vec<TokChunk>, &'static str),
    EitherUnchecked(&'static str),
}

/// Tokenise a string that is already *framed* as an SDES packet (version 2, PT 202, exact
/// length, non-zero padding count if P).
pub fn ref_sdes_tokenise(b: &[u8]) -> SdesRef {
    let h = ref_hdr(b);
    let pad = if h.p { b[b.len() - 1] as usize } else { 0 };
    if pad % 4 != 0 {
        return SdesRef::EitherUnchecked("padding count not a multiple of 4");
    }
    if pad > b.len() - 4 {
        return SdesRef::EitherUnchecked("padding count larger than the body");
    }
    let body = &b[4..b.len() - pad];
    let total = &b[4..];
    let mut chunks = Vec::new();
    let mut lenient: Option<&'static str> = None;
    let mut pos = 0usize;
    while pos < body.len() {
        let start = pos;
        let ssrc = be32(body, pos);
        pos += 4;
        let mut items = Vec::new();
        loop {
            if pos == body.len() {
                lenient = Some("last chunk's item list runs to the end without a null octet");
                break;
            }
            let ty = body[pos];
            if ty == 0 {
                pos += 1;
                while pos % 4 != 0 {
                    if body[pos] != 0 {
                        return SdesRef::MustReject("non-zero octet in a chunk's fill");
                    }
                    pos += 1;
                }
                break;
            }
            if pos + 1 >= body.len() {
                if pos + 1 >= total.len() {
                    return SdesRef::MustReject("item header overruns the packet");
                }
                return SdesRef::EitherUnchecked("item reaches into the padding");
            }
            let l = body[pos + 1] as usize;
            if pos + 2 + l > body.len() {
                if pos + 2 + l > total.len() {
                    return SdesRef::MustReject("item overruns the packet");
                }
                return SdesRef::EitherUnchecked("item reaches into the padding");
            }
            let content = body[pos + 2..pos + 2 + l].to_vec();
            let (prefix, value) = if ty == 8 && l == 0 {
                // a PRIV item without even a prefix length octet: no prefix "overruns its item", so the statement
                // does not put it among the strings that must be rejected; it is not well-formed either
                if lenient.is_none() {
                    lenient = Some("PRIV item of length 0 (no prefix length octet)");
                }
                (Vec::new(), Vec::new())
            } else if ty == 8 {
                let pl = content[0] as usize;
                if 1 + pl > l {
                    return SdesRef::MustReject("PRIV prefix overruns its item");
                }
                (content[1..1 + pl].to_vec(), content[1 + pl..].to_vec())
            } else {
                (Vec::new(), content.clone())
            };
            items.push(TokItem { ty, content, prefix, value });
            pos += 2 + l;
        }
        chunks.push(TokChunk { ssrc, items, wire_len: pos - start });
    }
    if chunks.len() != h.count as usize && lenient.is_none() {
        lenient = Some("source count differs from the number of chunks");
    }
    match lenient {
        None => SdesRef::MustAccept(chunks),
        Some(why) => SdesRef::Either(chunks, why),
    }
}

// --- FCI reference decoders ---

pub fn ref_nack_decode(fci: &[u8]) -> Vec<u16> {
    let mut out = Vec::new();
    for w in 0..fci.len() / 4 {
        let pid = be16(fci, 4 * w);
        let blp = be16(fci, 4 * w + 2);
        out.push(pid);
        for k in 1..=16u16 {
            if blp & (1 << (k - 1)) != 0 {
                out.push(pid.wrapping_add(k));
            }
        }
    }
    out
}

pub fn ref_fir_decode(fci: &[u8]) -> Vec<(u32, u8)> {
    (0..fci.len() / 8).map(|i| (be32(fci, 8 * i), fci[8 * i + 4])).collect()
}

pub fn ref_sli_decode(fci: &[u8]) -> Vec<(u16, u16, u8)> {
    (0..fci.len() / 4)
        .map(|i| {
            let w = be32(fci, 4 * i);
            ((w >> 19) as u16 & 0x1fff, (w >> 6) as u16 & 0x1fff, (w & 0x3f) as u8)
        })
        .collect()
}

/// (payload type, significant bits of the native bit string) or None when PB exceeds the
/// bits present (the either-zone of C15).
pub fn ref_rpsi_decode(fci: &[u8]) -> Option<(u8, Vec<bool>)> {
    if fci.len() < 2 {
        return None;
    }
    let pb = fci[0] as usize;
    let total_bits = 8 * (fci.len() - 2);
    if pb > total_bits {
        return None;
    }
    let mut bits = Vec::with_capacity(total_bits - pb);
    for i in 0..total_bits - pb {
        let byte = fci[2 + i / 8];
        bits.push(byte & (0x80 >> (i % 8)) != 0);
    }
    Some((fci[1] & 0x7f, bits))
}

/// bit vector of a (bytes, ignored trailing bits) pair
pub fn bits_of(data: &[u8], ignored: usize) -> Option<Vec<bool>> {
    let total = 8 * data.len();
    if ignored > total {
        return None;
    }
    Some((0..total - ignored).map(|i| data[i / 8] & (0x80 >> (i % 8)) != 0).collect())
}

pub fn hex(b: &[u8]) -> String {
    const D: &[u8; 16] = b"0123456789abcdef";
    let mut s = String::with_capacity(2 * b.len());
    for x in b {
        s.push(D[(x >> 4) as usize] as char);
        s.push(D[(x & 15) as usize] as char);
    }
    s
}

pub fn unhex(s: &str) -> Option<Vec<u8>> {
    let s: Vec<u8> = s.bytes().filter(|c| !c.is_ascii_whitespace()).collect();
    if s.len() % 2 != 0 {
        return None;
    }
    let d = |c: u8| -> Option<u8> {
        match c {
            b'0'..=b'9' => Some(c - b'0'),
            b'a'..=b'f' => Some(c - b'a' + 10),
            b'A'..=b'F' => Some(c - b'A' + 10),
            _ => None,
        }
    };
    let mut out = Vec::with_capacity(s.len() / 2);
    for p in s.chunks(2) {
        out.push(d(p[0])? << 4 | d(p[1])?);
    }
    Some(out)
}
