//! Hand-written structured decoding of fuzzer bytes into builder configurations (packet specs),
//! for the coverage-guided campaigns of the builder-side properties. (proptest's pass-through RNG
//! cannot serve here: every `prop_flat_map` forks the RNG and halves the remaining stream, so a
//! handful of them exhaust any input and rand's rejection sampling then spins on the zero fill.)
//!
//! The decoder is total (every byte string decodes to some configuration), local (a byte edit
//! changes one field or one list element) and biased to the same boundaries as the proptest
//! generators of gen.rs. `inv = false` yields only representable configurations; that is checked
//! against `model::violations` by the callers, not assumed.

use crate::drive::How;
use crate::model::*;

pub struct Cur<'a> {
    b: &'a [u8],
    i: usize,
}

impl<'a> Cur<'a> {
    pub fn new(b: &'a [u8]) -> Self {
        Cur { b, i: 0 }
    }
    pub fn u8(&mut self) -> u8 {
        let v = self.b.get(self.i).copied().unwrap_or(0);
        self.i += 1;
        v
    }
    pub fn left(&self) -> usize {
        self.b.len().saturating_sub(self.i)
    }
    pub fn rest(&mut self) -> Vec<u8> {
        let r = self.b.get(self.i..).unwrap_or(&[]).to_vec();
        self.i = self.b.len();
        r
    }
    pub fn u16(&mut self) -> u16 {
        (self.u8() as u16) << 8 | self.u8() as u16
    }
    pub fn u32(&mut self) -> u32 {
        (self.u16() as u32) << 16 | self.u16() as u32
    }
    pub fn flag(&mut self) -> bool {
        self.u8() & 1 == 1
    }
    pub fn bytes(&mut self, n: usize) -> Vec<u8> {
        (0..n).map(|_| self.u8()).collect()
    }
    /// boundary-biased 32-bit value (SSRCs with leading / trailing zero bytes, all ones, ...)
    pub fn v32(&mut self) -> u32 {
        const T: [u32; 12] = [0, 1, 0xff, 0x00ff_ffff, 0x0100_0000, 0xffff_ffff, 0x8000_0000, 0x0000_00ab, 0x0000_abcd, 0x00ab_cdef, 0xab00_0000, 0x7fff_ffff];
        let s = self.u8();
        if (s as usize) < T.len() {
            T[s as usize]
        } else {
            self.u32()
        }
    }
    pub fn v16(&mut self) -> u16 {
        const T: [u16; 12] = [0, 1, 15, 16, 17, 18, 0xff, 0x100, 0x7fff, 0x8000, 0xfffe, 0xffff];
        let s = self.u8();
        if (s as usize) < T.len() {
            T[s as usize]
        } else {
            self.u16()
        }
    }
    /// list sizes with the limit 31/32 in reach
    pub fn count31(&mut self, inv: bool) -> usize {
        match self.u8() {
            0..=99 => 0,
            100..=159 => 1,
            160..=199 => 2,
            200..=219 => 3 + (self.u8() % 27) as usize,
            220..=234 => 30,
            235..=249 => 31,
            _ => {
                if inv {
                    // just over the limit, and values that alias a legal count when truncated to 8 bits
                    [32usize, 33, 34, 255, 256, 257, 272, 287, 288, 512, 543][(self.u8() % 11) as usize]
                } else {
                    31
                }
            }
        }
    }
    /// byte lengths 0..=max with both ends and every residue in reach; max+1.. when `inv`
    pub fn len(&mut self, max: usize, inv: bool) -> usize {
        let s = self.u8();
        match s {
            0..=79 => (s % 12) as usize,
            80..=99 => max - (s as usize - 80) % 5.min(max + 1),
            100..=109 if inv => max + 1 + (s as usize - 100) % 3,
            110..=115 if inv => [256usize, 257, 260, 300, 511, 512][s as usize - 110],
            _ => self.u8() as usize % (max + 1),
        }
    }
    pub fn padding(&mut self, inv: bool) -> u8 {
        match self.u8() {
            0..=139 => 0,
            140..=169 => 4,
            170..=184 => 252,
            185..=199 => 8,
            200..=239 => 4 * (self.u8() % 64),
            _ => {
                if inv {
                    self.u8()
                } else {
                    24 * (1 + self.u8() % 10)
                }
            }
        }
    }
    /// UTF-8 text of exactly `n` bytes: ASCII, NUL, 2/3/4-byte scalars
    pub fn text(&mut self, n: usize) -> String {
        let mut s = String::with_capacity(n);
        while s.len() < n {
            let room = n - s.len();
            let k = self.u8();
            let ch = match k % 16 {
                0 => '\0',
                6 => ' ',
                7 => ['\t', '\n', '\r', '\u{7f}'][(k >> 4) as usize % 4],
                1 if room >= 2 => 'é',
                2 if room >= 3 => '€',
                3 if room >= 4 => '😀',
                4 if room >= 2 => '\u{7ff}',
                5 if room >= 3 => '\u{ffff}',
                _ => (b'a' + (k >> 4) % 26) as char,
            };
            s.push(ch);
        }
        s
    }
}

fn rb(c: &mut Cur, inv: bool) -> RbSpec {
    let cumulative_lost = match c.u8() {
        0..=99 => c.u32() & 0x00ff_ffff,
        100..=139 => 0x00ff_ffff,
        140..=179 => 0,
        180..=219 => 0x0080_0000,
        _ => {
            if inv {
                0x0100_0000 | c.u32()
            } else {
                0x00ff_fffe
            }
        }
    };
    RbSpec { ssrc: c.v32(), fraction_lost: c.u8(), cumulative_lost, ext_seq: c.v32(), jitter: c.v32(), lsr: c.v32(), dlsr: c.v32() }
}

fn blocks(c: &mut Cur, inv: bool) -> Vec<RbSpec> {
    let n = c.count31(inv);
    (0..n).map(|_| rb(c, inv)).collect()
}

fn item(c: &mut Cur, inv: bool) -> ItemSpec {
    let s = c.u8();
    let ty = match s {
        0..=79 => 1 + s % 7,
        80..=179 => 8,
        _ => c.u8().max(1),
    };
    if ty == 8 {
        // PRIV: prefix + value <= 254 (255 and more when inv)
        let p = c.len(254, inv).min(if inv { 256 } else { 254 });
        let room = 254usize.saturating_sub(p);
        let v = match c.u8() {
            0..=99 => c.len(room, false),
            100..=179 => room,
            180..=199 if inv => room + 1,
            _ => 0,
        };
        ItemSpec { ty, prefix: c.bytes(p), value: c.text(v) }
    } else {
        let v = c.len(255, inv);
        let prefix = if c.u8() % 8 == 0 { c.bytes(3) } else { Vec::new() };
        ItemSpec { ty, prefix, value: c.text(v) }
    }
}

fn chunk(c: &mut Cur, inv: bool) -> ChunkSpec {
    let n = match c.u8() {
        0..=49 => 0,
        50..=149 => 1,
        150..=219 => 2,
        _ => 3 + (c.u8() % 4) as usize,
    };
    ChunkSpec { ssrc: c.v32(), items: (0..n).map(|_| item(c, inv)).collect() }
}

fn fci(c: &mut Cur, inv: bool) -> FciSpec {
    match c.u8() % 15 {
        0..=3 => {
            // NACK: runs, window-straddling offsets, edges, free values
            let n = match c.u8() {
                0..=29 => 0,
                30..=199 => 1 + (c.u8() % 8) as usize,
                _ => 9 + (c.u8() % 40) as usize,
            };
            let base = c.v16();
            let mut v = Vec::with_capacity(n);
            for _ in 0..n {
                let s = c.u8();
                let x = match s {
                    0..=119 => base.wrapping_add([0u16, 1, 2, 15, 16, 17, 18, 32, 33, 34, 35, 36][(s % 12) as usize]),
                    120..=179 => base.wrapping_add(c.u8() as u16),
                    180..=219 => [0u16, 1, 16, 17, 0x7fff, 0x8000, 0x8001, 65518, 65519, 65533, 65534, 65535][(s % 12) as usize],
                    _ => c.u16(),
                };
                v.push(x);
            }
            FciSpec::Nack(v)
        }
        4 => FciSpec::Pli,
        5..=7 => {
            let n = match c.u8() {
                0..=19 => 0,
                20..=219 => 1 + (c.u8() % 5) as usize,
                _ => 20 + (c.u8() % 20) as usize,
            };
            // neighbours are related (repeat / continuation of the previous run) often enough to matter
            let mut v: Vec<(u16, u16, u8)> = Vec::with_capacity(n);
            for _ in 0..n {
                let e = match (c.u8() % 10, v.last().copied()) {
                    (0, Some(prev)) => prev,
                    (1, Some((pa, pn, pp))) => (pa.wrapping_add(pn) & 0x1fff, c.v16() & 0x1fff, pp),
                    (2, Some((pa, _, pp))) => (pa, c.v16() & 0x1fff, pp),
                    _ => (c.v16() & 0x1fff, c.v16() & 0x1fff, c.u8() & 0x3f),
                };
                v.push(e);
            }
            FciSpec::Sli(v)
        }
        8..=11 => {
            let pt = match c.u8() {
                0..=199 => c.u8() & 0x7f,
                200..=229 => 127,
                _ => {
                    if inv {
                        128 | c.u8()
                    } else {
                        0
                    }
                }
            };
            let n = match c.u8() {
                0..=199 => c.len(40, false),
                _ => 990 + (c.u8() % 20) as usize,
            };
            let data = c.bytes(n);
            let overrun = match c.u8() {
                0..=159 => c.u8() % 9,
                160..=199 => 8,
                200..=219 if inv => 9 + c.u8() % 247,
                _ => 0,
            };
            let overrun = if data.is_empty() && !inv { 0 } else { overrun };
            FciSpec::Rpsi { pt, data, overrun }
        }
        _ => {
            let n = match c.u8() {
                0..=19 => 0,
                20..=219 => 1 + (c.u8() % 6) as usize,
                _ => 50 + (c.u8() % 70) as usize,
            };
            let dup = c.flag();
            FciSpec::Fir((0..n).map(|_| (if dup { [0u32, 1, 2, 0xffff_ffff][(c.u8() % 4) as usize] } else { c.v32() }, c.u8())).collect())
        }
    }
}

fn words(c: &mut Cur, inv: bool) -> Vec<u8> {
    let s = c.u8();
    let n = match s {
        0..=59 => 0,
        60..=199 => 4 * (1 + (s as usize - 60) % 12),
        200..=219 => 4 * (c.u8() as usize),
        220..=229 => 4000 + 4 * (c.u8() as usize % 8),
        _ => {
            if inv {
                1 + (c.u8() as usize % 23)
            } else {
                4
            }
        }
    };
    c.bytes(n)
}

pub fn leaf(c: &mut Cur, inv: bool, custom: bool) -> PacketSpec {
    let k = c.u8() % if custom { 20 } else { 19 };
    leaf_k(c, inv, k)
}

/// a leaf of the kind selected by a number in lo..=hi (SR 0-1, RR 2-3, SDES 4-6, BYE 7-9, APP 10-11,
/// feedback 12-16, unknown 17-18, third-party 19)
pub fn leaf_in(c: &mut Cur, inv: bool, lo: u8, hi: u8) -> PacketSpec {
    let k = lo + c.u8() % (hi - lo + 1);
    leaf_k(c, inv, k)
}

fn leaf_k(c: &mut Cur, inv: bool, k: u8) -> PacketSpec {
    match k {
        0 | 1 => PacketSpec::Sr(SrSpec { ssrc: c.v32(), ntp: (c.v32() as u64) << 32 | c.v32() as u64, rtp: c.v32(), packet_count: c.v32(), octet_count: c.v32(), blocks: blocks(c, inv), padding: c.padding(inv) }),
        2 | 3 => PacketSpec::Rr(RrSpec { ssrc: c.v32(), blocks: blocks(c, inv), padding: c.padding(inv) }),
        4..=6 => {
            let n = c.count31(inv);
            PacketSpec::Sdes(SdesSpec { chunks: (0..n).map(|_| chunk(c, inv)).collect(), padding: c.padding(inv) })
        }
        7..=9 => {
            let n = c.count31(inv);
            let sources = (0..n).map(|_| c.v32()).collect();
            let reason = match c.u8() % 4 {
                0 => None,
                _ => {
                    let l = c.len(255, inv);
                    Some(c.text(l))
                }
            };
            PacketSpec::Bye(ByeSpec { sources, reason, padding: c.padding(inv) })
        }
        10 | 11 => {
            let subtype = match c.u8() {
                0..=199 => c.u8() & 31,
                200..=229 => 31,
                _ => {
                    if inv {
                        32 + c.u8() % 224
                    } else {
                        0
                    }
                }
            };
            let name = match c.u8() {
                0..=199 => {
                    let n = (c.u8() % 5) as usize;
                    (0..n).map(|_| (c.u8() & 0x7f) as char).collect::<String>()
                }
                200..=219 if inv => "abcde".to_string(),
                220..=239 if inv => "é".to_string(),
                _ => "name".to_string(),
            };
            PacketSpec::App(AppSpec { ssrc: c.v32(), subtype, name, data: words(c, inv), padding: c.padding(inv) })
        }
        12..=16 => {
            let f = fci(c, inv);
            let home = f.home();
            let kind = if inv && c.u8() % 8 == 0 {
                match home {
                    FbKind::Transport => FbKind::Payload,
                    FbKind::Payload => FbKind::Transport,
                }
            } else {
                home
            };
            PacketSpec::Fb(FbSpec { kind, sender: c.v32(), media: c.v32(), fci: f, padding: c.padding(inv) })
        }
        17 | 18 => {
            let pt = match c.u8() {
                0..=99 => [0u8, 192, 199, 207, 208, 242, 255][(c.u8() % 7) as usize],
                100..=139 => 200 + c.u8() % 7,
                _ => c.u8(),
            };
            let count = match c.u8() {
                0..=199 => c.u8() & 31,
                200..=229 => 31,
                _ => {
                    if inv {
                        32 + c.u8() % 224
                    } else {
                        30
                    }
                }
            };
            PacketSpec::Unknown(UnknownSpec { pt, count, data: words(c, inv), padding: c.padding(inv) })
        }
        _ => {
            let family = (c.u8() as usize) % CUSTOM_FAMILY.len();
            let min = CUSTOM_FAMILY[family].1;
            let fixed = if min >= 8 { c.bytes(min - 8) } else { Vec::new() };
            let ssrc = if min >= 8 { c.v32() } else { 0 };
            let tw = (c.u8() % 9) as usize;
            PacketSpec::Custom(CustomSpec { family, count: c.u8() & 31, ssrc, fixed, tail: c.bytes(4 * tw), padding: c.padding(inv) })
        }
    }
}

fn strip(p: &mut PacketSpec, keep_last: bool) {
    match p {
        PacketSpec::Compound(v) => {
            let n = v.len();
            for (i, m) in v.iter_mut().enumerate() {
                strip(m, keep_last && i + 1 == n);
            }
        }
        leaf => {
            if !keep_last {
                leaf.set_padding(0)
            }
        }
    }
}

/// member lists of 0..=6, nested to depth 2
pub fn compound(c: &mut Cur, inv: bool, pad_only_last: bool) -> PacketSpec {
    fn members(c: &mut Cur, inv: bool, depth: u8, max: usize) -> Vec<PacketSpec> {
        let n = (c.u8() as usize) % (max + 1);
        (0..n)
            .map(|_| {
                if depth < 2 && c.u8() % 8 == 0 {
                    PacketSpec::Compound(members(c, inv, depth + 1, 3))
                } else {
                    leaf(c, inv, true)
                }
            })
            .collect()
    }
    let mut ms = members(c, inv, 0, 6);
    if pad_only_last {
        let n = ms.len();
        for (i, m) in ms.iter_mut().enumerate() {
            strip(m, i + 1 == n);
        }
    }
    PacketSpec::Compound(ms)
}

pub fn how(c: &mut Cur) -> How {
    let b = c.u8();
    How { fb_owned: b & 1 != 0, wrap: b & 2 != 0, single_compound: b & 0x1c == 0x1c, owned: b & 0x60 == 0x60, probe: b & 0x80 != 0 }
}

/// any packet spec: leaf (mostly) or compound
pub fn packet(c: &mut Cur, inv: bool, pad_only_last: bool) -> PacketSpec {
    if c.u8() % 6 == 0 {
        compound(c, inv, pad_only_last)
    } else {
        leaf(c, inv, true)
    }
}
