//! proptest strategies: packet specs (representable / possibly unrepresentable), byte strings
//! (random, framed, mutated-valid, concatenated), FCI bodies.

use crate::model::*;
use crate::run::Bytes;
use proptest::collection::vec;
use proptest::prelude::*;
use proptest::sample::select;

pub type BS<T> = BoxedStrategy<T>;

// ---------------------------------------------------------------------------------------------
// scalars
// ---------------------------------------------------------------------------------------------

pub fn u32b() -> BS<u32> {
    prop_oneof![
        3 => any::<u32>(),
        2 => select(vec![
            0u32, 1, 0xff, 0x00ff_ffff, 0x0100_0000, 0xffff_ffff, 0x8000_0000, 0x7fff_ffff, 0x0000_00ab,
            0x0000_abcd, 0x00ab_cdef, 0xab00_0000, 0xabcd_0000, 0x0001_0000, 0x0000_0100,
        ]),
    ]
    .boxed()
}

pub fn u64b() -> BS<u64> {
    prop_oneof![
        3 => any::<u64>(),
        1 => select(vec![0u64, 1, u64::MAX, 1 << 63, 0xffff_ffff, 1 << 32, 0x0102_0304_0506_0708]),
    ]
    .boxed()
}

pub fn u8b() -> BS<u8> {
    prop_oneof![3 => any::<u8>(), 1 => select(vec![0u8, 1, 0x7f, 0x80, 0xff])].boxed()
}

pub fn u16b() -> BS<u16> {
    prop_oneof![3 => any::<u16>(), 1 => select(vec![0u16, 1, 15, 16, 17, 0x7fff, 0x8000, 0xfffe, 0xffff])].boxed()
}

/// legal paddings: multiples of 4 up to 252, 0 most often
pub fn padding_ok() -> BS<u8> {
    prop_oneof![
        5 => Just(0u8),
        2 => Just(4u8),
        1 => Just(8u8),
        1 => Just(252u8),
        3 => (0u8..=63).prop_map(|k| k * 4),
    ]
    .boxed()
}

pub fn padding_any(inv: bool) -> BS<u8> {
    if inv {
        prop_oneof![6 => padding_ok(), 1 => any::<u8>(), 1 => select(vec![1u8, 2, 3, 5, 6, 7, 253, 254, 255])].boxed()
    } else {
        padding_ok()
    }
}

/// sizes of lists limited to 31
pub fn count31(inv: bool) -> BS<usize> {
    if inv {
        // over the limit: just over, and the values that alias a legal count when truncated to 8 bits (256+k)
        prop_oneof![2 => Just(0usize), 2 => Just(1), 2 => Just(2), 1 => Just(30), 2 => Just(31), 2 => Just(32), 1 => Just(33), 1 => select(vec![255usize, 256, 257, 272, 287, 288, 512, 543]), 3 => 0usize..=31].boxed()
    } else {
        prop_oneof![2 => Just(0usize), 2 => Just(1), 2 => Just(2), 1 => Just(30), 2 => Just(31), 3 => 0usize..=31].boxed()
    }
}

/// byte lengths limited to `max` (255 or 254): every residue mod 4 frequent, both ends dense
pub fn byte_len(max: usize, inv: bool) -> BS<usize> {
    let top = max.saturating_sub(4);
    if inv {
        prop_oneof![3 => 0usize..=5, 2 => top..=max, 1 => (max + 1)..=(max + 2), 1 => Just(max + 45), 1 => select(vec![256usize, 257, 260, 300, 511, 512, 767]), 4 => 0usize..=max].boxed()
    } else {
        prop_oneof![3 => 0usize..=5, 2 => top..=max, 4 => 0usize..=max].boxed()
    }
}

fn make_text(len: usize, sel: &[u8]) -> String {
    let mut s = String::with_capacity(len);
    let mut i = 0usize;
    while s.len() < len {
        let rem = len - s.len();
        let k = sel.get(i).copied().unwrap_or(0);
        i += 1;
        let c = match k % 16 {
            15 if rem >= 4 => '😀',
            14 if rem >= 3 => '€',
            13 if rem >= 2 => 'é',
            12 => '\0',
            11 => [' ', ' ', '\t', '\n'][(k >> 4) as usize % 4],
            10 => '\u{7f}',
            _ => (b'a' + k % 26) as char,
        };
        s.push(c);
    }
    s
}

/// UTF-8 text of exactly the drawn byte length (ASCII, NUL, 2/3/4-byte scalars)
pub fn text(len: BS<usize>) -> BS<String> {
    len.prop_flat_map(|l| vec(any::<u8>(), l.min(64)).prop_map(move |sel| make_text(l, &sel))).boxed()
}

pub fn bytes_len(len: BS<usize>) -> BS<Vec<u8>> {
    len.prop_flat_map(|l| vec(any::<u8>(), l)).boxed()
}

/// word-aligned payloads: 0..=64 words, rarely ~1000
pub fn words(inv: bool) -> BS<Vec<u8>> {
    let w = prop_oneof![4 => 0usize..=4, 4 => 0usize..=64, 1 => 900usize..=1100];
    if inv {
        (w, prop_oneof![4 => Just(0usize), 1 => 1usize..=3]).prop_flat_map(|(w, extra)| vec(any::<u8>(), 4 * w + extra)).boxed()
    } else {
        w.prop_flat_map(|w| vec(any::<u8>(), 4 * w)).boxed()
    }
}

// ---------------------------------------------------------------------------------------------
// specs
// ---------------------------------------------------------------------------------------------

pub fn rb_spec(inv: bool) -> BS<RbSpec> {
    let cum = if inv {
        prop_oneof![
            6 => 0u32..=0x00ff_ffff,
            2 => select(vec![0u32, 1, 0x00ff_ffff, 0x00ff_fffe, 0x0080_0000]),
            1 => select(vec![0x0100_0000u32, 0x0100_0001, 0xffff_ffff, 0x8000_0000]),
            1 => any::<u32>(),
        ]
        .boxed()
    } else {
        prop_oneof![6 => 0u32..=0x00ff_ffff, 3 => select(vec![0u32, 1, 0x00ff_ffff, 0x00ff_fffe, 0x0080_0000, 0x0000_ffff, 0x00ff_0000])].boxed()
    };
    (u32b(), u8b(), cum, u32b(), u32b(), u32b(), u32b())
        .prop_map(|(ssrc, fraction_lost, cumulative_lost, ext_seq, jitter, lsr, dlsr)| RbSpec {
            ssrc,
            fraction_lost,
            cumulative_lost,
            ext_seq,
            jitter,
            lsr,
            dlsr,
        })
        .boxed()
}

pub fn sr_spec(inv: bool) -> BS<SrSpec> {
    (u32b(), u64b(), u32b(), u32b(), u32b(), count31(inv).prop_flat_map(move |n| vec(rb_spec(inv), n)), padding_any(inv))
        .prop_map(|(ssrc, ntp, rtp, packet_count, octet_count, blocks, padding)| SrSpec {
            ssrc,
            ntp,
            rtp,
            packet_count,
            octet_count,
            blocks,
            padding,
        })
        .boxed()
}

pub fn rr_spec(inv: bool) -> BS<RrSpec> {
    (u32b(), count31(inv).prop_flat_map(move |n| vec(rb_spec(inv), n)), padding_any(inv))
        .prop_map(|(ssrc, blocks, padding)| RrSpec { ssrc, blocks, padding })
        .boxed()
}

pub fn item_spec(inv: bool) -> BS<ItemSpec> {
    let plain = (
        prop_oneof![6 => 1u8..=7, 1 => 9u8..=255],
        text(byte_len(255, inv)),
        // a prefix set on a non-PRIV item has no effect, however long it is
        prop_oneof![10 => Just(Vec::new()), 2 => vec(any::<u8>(), 0..6), 1 => select(vec![253usize, 254, 255, 256, 300]).prop_flat_map(|n| vec(any::<u8>(), n))],
    )
        .prop_map(|(ty, value, prefix)| ItemSpec { ty, prefix, value });
    // PRIV: prefix + value <= 254
    let privv = byte_len(254, inv)
        .prop_flat_map(|total| (Just(total), 0..=total))
        .prop_flat_map(|(total, split)| (vec(any::<u8>(), split), text(Just(total - split).boxed())))
        .prop_map(|(prefix, value)| ItemSpec { ty: 8, prefix, value });
    prop_oneof![3 => plain, 2 => privv].boxed()
}

pub fn chunk_spec(inv: bool) -> BS<ChunkSpec> {
    (u32b(), prop_oneof![6 => 0usize..=3, 1 => 4usize..=12].prop_flat_map(move |n| vec(item_spec(inv), n)))
        .prop_map(|(ssrc, items)| ChunkSpec { ssrc, items })
        .boxed()
}

pub fn sdes_spec(inv: bool) -> BS<SdesSpec> {
    let n = if inv {
        prop_oneof![8 => 0usize..=4, 1 => Just(31usize), 1 => Just(32usize), 1 => 5usize..=31].boxed()
    } else {
        prop_oneof![8 => 0usize..=4, 1 => Just(31usize), 1 => 5usize..=31].boxed()
    };
    (n.prop_flat_map(move |n| vec(chunk_spec(inv), n)), padding_any(inv))
        .prop_map(|(chunks, padding)| SdesSpec { chunks, padding })
        .boxed()
}

pub fn bye_spec(inv: bool) -> BS<ByeSpec> {
    let reason = prop_oneof![
        2 => Just(None),
        1 => Just(Some(String::new())),
        6 => text(byte_len(255, inv)).prop_map(Some),
    ];
    (count31(inv).prop_flat_map(|n| vec(u32b(), n)), reason, padding_any(inv))
        .prop_map(|(sources, reason, padding)| ByeSpec { sources, reason, padding })
        .boxed()
}

pub fn app_name(inv: bool) -> BS<String> {
    let ascii = vec(prop_oneof![6 => 0x20u8..0x7f, 1 => Just(0u8), 1 => 0u8..0x80], 0..=4)
        .prop_map(|v| String::from_utf8(v).unwrap());
    if inv {
        prop_oneof![
            6 => ascii,
            1 => vec(0x20u8..0x7f, 5..=7).prop_map(|v| String::from_utf8(v).unwrap()),
            // longer than the field only because of trailing NULs (a C string with its terminator), or with any 7-bit bytes
            1 => (vec(0x20u8..0x7f, 1..=4), 1usize..=4).prop_map(|(mut v, k)| {
                v.extend(std::iter::repeat(0u8).take(k));
                String::from_utf8(v).unwrap()
            }),
            1 => vec(0u8..0x80, 5..=8).prop_map(|v| String::from_utf8(v).unwrap()),
            1 => select(vec!["é", "aé", "€", "abé", "naïv", "😀", "ab\u{80}"]).prop_map(|s| s.to_string()),
        ]
        .boxed()
    } else {
        ascii.boxed()
    }
}

pub fn app_spec(inv: bool) -> BS<AppSpec> {
    let subtype = if inv { prop_oneof![6 => 0u8..=31, 1 => 32u8..=255, 1 => Just(32u8)].boxed() } else { (0u8..=31).boxed() };
    (u32b(), subtype, app_name(inv), words(inv), padding_any(inv))
        .prop_map(|(ssrc, subtype, name, data, padding)| AppSpec { ssrc, subtype, name, data, padding })
        .boxed()
}

/// sets of 16-bit sequence numbers given as the list of add calls
pub fn nack_list() -> BS<Vec<u16>> {
    let dense = (u16b(), 0usize..=40).prop_map(|(b, n)| (0..n as u16).map(|i| b.wrapping_add(i)).collect::<Vec<u16>>());
    let window = (u16b(), vec(select(vec![0u16, 1, 15, 16, 17, 18, 32, 33, 34, 35]), 1..=5))
        .prop_map(|(b, ds)| ds.into_iter().map(|d| b.wrapping_add(d)).collect::<Vec<u16>>());
    let sparse = vec(u16b(), 0..=12);
    let edges = vec(select(vec![0u16, 1, 2, 15, 16, 17, 65518, 65519, 65520, 65533, 65534, 65535]), 1..=8);
    let clustered = (u16b(), vec(0u16..=60, 0..=24)).prop_map(|(b, ds)| ds.into_iter().map(|d| b.wrapping_add(d)).collect::<Vec<u16>>());
    let big = vec(any::<u16>(), 200..=600);
    prop_oneof![3 => dense, 3 => window, 2 => sparse, 2 => edges, 3 => clustered, 1 => big,
        1 => (sparse_dup(), Just(())).prop_map(|(v, _)| v)]
    .boxed()
}

fn sparse_dup() -> BS<Vec<u16>> {
    vec(u16b(), 1..=6).prop_map(|v| {
        let mut out = v.clone();
        out.extend(v.iter().rev());
        out
    })
    .boxed()
}

pub fn fir_list() -> BS<Vec<(u32, u8)>> {
    let small = vec((u32b(), u8b()), 0..=5);
    let dup = (vec((select(vec![0u32, 1, 2, 0xffff_ffff]), u8b()), 1..=8)).boxed();
    let big = vec((any::<u32>(), any::<u8>()), 50..=120);
    prop_oneof![6 => small, 3 => dup, 1 => big].boxed()
}

pub fn sli_list(inv_fields: bool) -> BS<Vec<(u16, u16, u8)>> {
    let f13 = prop_oneof![3 => 0u16..=0x1fff, 2 => select(vec![0u16, 1, 0x1fff, 0x1000, 0x0fff, 0x1fe0, 0x001f, 0x1c00, 0x03fc, 0x0003])].boxed();
    let f13b = f13.clone();
    let f6 = prop_oneof![3 => 0u8..=0x3f, 1 => select(vec![0u8, 1, 0x3f, 0x20])].boxed();
    let _ = inv_fields;
    // entries are independent of each other on the wire; the list is generated with RELATIONS between
    // neighbours (exact repeat, a run that continues the previous one, same start / same picture) so that
    // anything that merges, de-duplicates or reorders entries is seen
    let rel = prop_oneof![6 => Just(0u8), 1 => Just(1u8), 1 => Just(2u8), 1 => Just(3u8), 1 => Just(4u8)];
    prop_oneof![8 => 0usize..=6, 1 => 20usize..=40]
        .prop_flat_map(move |n| vec((f13.clone(), f13b.clone(), f6.clone(), rel.clone()), n))
        .prop_map(|raw| {
            let mut out: Vec<(u16, u16, u8)> = Vec::with_capacity(raw.len());
            for (a, n, p, rel) in raw {
                let e = match (rel, out.last().copied()) {
                    (1, Some(prev)) => prev,                                                   // exact repeat
                    (2, Some((pa, pn, pp))) => ((pa.wrapping_add(pn)) & 0x1fff, n, pp),        // continues the previous run
                    (3, Some((pa, _, pp))) => (pa, n, pp),                                     // same start, same picture
                    (4, Some((pa, pn, _))) => ((pa.wrapping_add(pn)) & 0x1fff, n, p),          // adjacent run of another picture
                    _ => (a, n, p),
                };
                out.push(e);
            }
            out
        })
        .boxed()
}

pub fn fci_spec(inv: bool) -> BS<FciSpec> {
    let rpsi = (
        if inv { prop_oneof![6 => 0u8..=127, 1 => 128u8..=255].boxed() } else { (0u8..=127).boxed() },
        bytes_len(prop_oneof![6 => 0usize..=40, 1 => 990usize..=1010].boxed()),
        if inv { prop_oneof![8 => 0u8..=8, 1 => 9u8..=255].boxed() } else { (0u8..=8).boxed() },
    )
        .prop_map(move |(pt, data, overrun)| {
            let overrun = if data.is_empty() && !inv { 0 } else { overrun };
            FciSpec::Rpsi { pt, data, overrun }
        });
    prop_oneof![
        4 => nack_list().prop_map(FciSpec::Nack),
        1 => Just(FciSpec::Pli),
        3 => sli_list(false).prop_map(FciSpec::Sli),
        4 => rpsi,
        3 => fir_list().prop_map(FciSpec::Fir),
    ]
    .boxed()
}

pub fn fb_spec(inv: bool) -> BS<FbSpec> {
    (fci_spec(inv), u32b(), u32b(), padding_any(inv), any::<u8>())
        .prop_map(move |(fci, sender, media, padding, k)| {
            let home = fci.home();
            let kind = if inv && k % 8 == 0 {
                if home == FbKind::Transport {
                    FbKind::Payload
                } else {
                    FbKind::Transport
                }
            } else {
                home
            };
            FbSpec { kind, sender, media, fci, padding }
        })
        .boxed()
}

pub fn unknown_spec(inv: bool) -> BS<UnknownSpec> {
    let count = if inv { prop_oneof![6 => 0u8..=31, 1 => 32u8..=255].boxed() } else { (0u8..=31).boxed() };
    (prop_oneof![3 => any::<u8>(), 2 => select(vec![0u8, 192, 199, 207, 208, 242, 255]), 1 => 200u8..=206], count, words(inv), padding_any(inv))
        .prop_map(|(pt, count, data, padding)| UnknownSpec { pt, count, data, padding })
        .boxed()
}

pub fn custom_spec(inv: bool) -> BS<CustomSpec> {
    (0usize..CUSTOM_FAMILY.len(), 0u8..=31, u32b(), vec(any::<u8>(), 20), (0usize..=8).prop_flat_map(|w| vec(any::<u8>(), 4 * w)), padding_any(inv))
        .prop_map(|(family, count, ssrc, fixed, tail, padding)| {
            let min = CUSTOM_FAMILY[family].1;
            let fixed = if min >= 8 { fixed[..min - 8].to_vec() } else { Vec::new() };
            let ssrc = if min >= 8 { ssrc } else { 0 };
            CustomSpec { family, count, ssrc, fixed, tail, padding }
        })
        .boxed()
}

/// one packet of any of the crate's eight builder kinds (+ third-party when `custom`)
pub fn leaf_spec(inv: bool, custom: bool) -> BS<PacketSpec> {
    let base = prop_oneof![
        2 => sr_spec(inv).prop_map(PacketSpec::Sr),
        2 => rr_spec(inv).prop_map(PacketSpec::Rr),
        3 => sdes_spec(inv).prop_map(PacketSpec::Sdes),
        3 => bye_spec(inv).prop_map(PacketSpec::Bye),
        2 => app_spec(inv).prop_map(PacketSpec::App),
        5 => fb_spec(inv).prop_map(PacketSpec::Fb),
        2 => unknown_spec(inv).prop_map(PacketSpec::Unknown),
    ];
    if custom {
        prop_oneof![8 => base, 1 => custom_spec(inv).prop_map(PacketSpec::Custom)].boxed()
    } else {
        base.boxed()
    }
}

/// small leaves (for compounds and concatenations)
pub fn small_leaf(inv: bool, custom: bool) -> BS<PacketSpec> {
    leaf_spec(inv, custom)
}

pub fn how() -> BS<crate::drive::How> {
    (any::<bool>(), any::<bool>(), prop_oneof![4 => Just(false), 1 => Just(true)], prop_oneof![2 => Just(false), 1 => Just(true)], prop_oneof![2 => Just(false), 1 => Just(true)])
        .prop_map(|(fb_owned, wrap, single_compound, owned, probe)| crate::drive::How { fb_owned, wrap, single_compound, owned, probe })
        .boxed()
}

/// Compound member lists: 0..=6 members, nested to depth 2; padding wherever the member
/// generator puts it (so both the valid "last only" and the invalid "non-last" shapes occur).
pub fn compound_spec(inv: bool, pad_only_last: bool) -> BS<PacketSpec> {
    let leaf = leaf_spec(inv, true);
    let inner = vec(leaf_spec(inv, true), 0..=3).prop_map(PacketSpec::Compound);
    let inner2 = vec(prop_oneof![4 => leaf_spec(inv, true), 1 => vec(leaf_spec(inv, true), 0..=2).prop_map(PacketSpec::Compound)], 1..=3)
        .prop_map(PacketSpec::Compound);
    let member = prop_oneof![10 => leaf, 1 => inner, 1 => inner2];
    vec(member, 0..=6)
        .prop_map(move |mut ms| {
            if pad_only_last {
                // strip padding from every leaf except the very last one
                fn strip(p: &mut PacketSpec, keep_last: bool) {
                    match p {
                        PacketSpec::Compound(v) => {
                            let n = v.len();
                            for (i, m) in v.iter_mut().enumerate() {
                                strip(m, keep_last && i + 1 == n);
                            }
                        }
                        leaf => {
                            if !keep_last {
                                leaf.set_padding(0)
                            }
                        }
                    }
                }
                let n = ms.len();
                for (i, m) in ms.iter_mut().enumerate() {
                    strip(m, i + 1 == n);
                }
            }
            PacketSpec::Compound(ms)
        })
        .boxed()
}

// ---------------------------------------------------------------------------------------------
// byte strings
// ---------------------------------------------------------------------------------------------

pub fn random_bytes() -> BS<Vec<u8>> {
    prop_oneof![6 => vec(any::<u8>(), 0..=64), 2 => vec(any::<u8>(), 0..=300), 1 => vec(select(vec![0u8, 1, 2, 4, 8, 0x80, 0x81, 0xa0, 0xff, 200, 201, 202, 203, 204, 205, 206]), 0..=48)]
        .boxed()
}

pub fn pt_choice() -> BS<u8> {
    prop_oneof![10 => 200u8..=206, 2 => 192u8..=199, 1 => Just(207u8), 1 => Just(0u8), 1 => Just(255u8), 1 => any::<u8>()].boxed()
}

/// (b) framed strings: header fields drawn, body random, length field right / off by a word /
/// 0xffff, last byte chosen when P is set
pub fn framed_bytes() -> BS<Vec<u8>> {
    let version = prop_oneof![12 => Just(2u8), 1 => 0u8..=3];
    let lenmode = prop_oneof![10 => Just(0i32), 1 => Just(1), 1 => Just(-1), 1 => Just(99)];
    let last = prop_oneof![2 => Just(0u8), 2 => Just(1), 1 => Just(3), 4 => Just(4), 2 => Just(8), 1 => Just(12), 1 => Just(250), 1 => Just(251), 1 => Just(252), 1 => Just(255), 2 => any::<u8>(), 3 => Just(254)];
    let bodyw = prop_oneof![5 => 0usize..=3, 5 => 0usize..=12, 2 => 0usize..=70, 1 => 180usize..=200];
    (version, any::<bool>(), prop_oneof![3 => 0u8..=3, 1 => 0u8..=31, 1 => Just(31u8)], pt_choice(), bodyw.prop_flat_map(|w| vec(prop_oneof![3 => any::<u8>(), 1 => Just(0u8), 1 => 0u8..=9], 4 * w)), lenmode, last, any::<u8>())
        .prop_map(|(version, p, count, pt, body, lenmode, last, lastsel)| {
            let mut b = Vec::with_capacity(4 + body.len());
            b.push(version << 6 | (p as u8) << 5 | count);
            b.push(pt);
            let words = body.len() / 4;
            let lf: u16 = match lenmode {
                0 => words as u16,
                1 => words as u16 + 1,
                -1 => (words as u16).wrapping_sub(1),
                _ => 0xffff,
            };
            b.push((lf >> 8) as u8);
            b.push(lf as u8);
            b.extend_from_slice(&body);
            if p && b.len() > 4 {
                let n = b.len();
                // special choices relative to the packet size
                b[n - 1] = match (last, lastsel % 8) {
                    (254, 0) => (n - 4).min(255) as u8,
                    (254, 1) => n.min(255) as u8,
                    (254, 2) => (n.saturating_sub(8)).min(255) as u8,
                    (254, 3) => (n.saturating_sub(12)).min(255) as u8,
                    (254, 4) => (n.saturating_sub(28)).min(255) as u8,
                    (254, 5) => (n - 3).min(255) as u8,
                    (254, _) => (n.saturating_sub(16)).min(255) as u8,
                    (l, _) => l,
                };
            }
            b
        })
        .boxed()
}

#[derive(Clone, Debug)]
pub enum Edit {
    Flip(u16, u8),
    SetByte(u16, u8),
    Truncate(u16),
    Extend(Vec<u8>),
    SetLen(u16),
    AddLen(i8),
    SetCount(u8),
    SetPt(u8),
    SetVersion(u8),
    SetP(bool),
    SetLast(u8),
}

pub fn edit() -> BS<Edit> {
    prop_oneof![
        3 => (any::<u16>(), 0u8..8).prop_map(|(p, b)| Edit::Flip(p, b)),
        3 => (any::<u16>(), prop_oneof![any::<u8>(), select(vec![0u8, 1, 4, 8, 0xff, 0x80])]).prop_map(|(p, v)| Edit::SetByte(p, v)),
        2 => any::<u16>().prop_map(Edit::Truncate),
        2 => vec(prop_oneof![Just(0u8), any::<u8>()], 1..=8).prop_map(Edit::Extend),
        1 => prop_oneof![any::<u16>(), 0u16..=12, Just(0xffffu16)].prop_map(Edit::SetLen),
        2 => select(vec![-2i8, -1, 1, 2]).prop_map(Edit::AddLen),
        3 => (0u8..=31).prop_map(Edit::SetCount),
        2 => pt_choice().prop_map(Edit::SetPt),
        1 => (0u8..=3).prop_map(Edit::SetVersion),
        3 => any::<bool>().prop_map(Edit::SetP),
        3 => prop_oneof![any::<u8>(), select(vec![0u8, 1, 2, 3, 4, 5, 8, 12, 252, 255])].prop_map(Edit::SetLast),
    ]
    .boxed()
}

fn at(pos: u16, len: usize) -> usize {
    // monotone index mapping (shrinks towards the front)
    (pos as usize * len) >> 16
}

pub fn apply_edit(b: &mut Vec<u8>, e: &Edit) {
    match e {
        Edit::Flip(p, bit) => {
            if !b.is_empty() {
                let i = at(*p, b.len());
                b[i] ^= 1 << bit;
            }
        }
        Edit::SetByte(p, v) => {
            if !b.is_empty() {
                let i = at(*p, b.len());
                b[i] = *v;
            }
        }
        Edit::Truncate(p) => {
            let n = at(*p, b.len() + 1);
            b.truncate(n);
        }
        Edit::Extend(v) => b.extend_from_slice(v),
        Edit::SetLen(l) => {
            if b.len() >= 4 {
                b[2] = (l >> 8) as u8;
                b[3] = *l as u8;
            }
        }
        Edit::AddLen(d) => {
            if b.len() >= 4 {
                let l = be16(b, 2).wrapping_add(*d as i16 as u16);
                b[2] = (l >> 8) as u8;
                b[3] = l as u8;
            }
        }
        Edit::SetCount(c) => {
            if !b.is_empty() {
                b[0] = b[0] & 0xe0 | c & 31;
            }
        }
        Edit::SetPt(pt) => {
            if b.len() >= 2 {
                b[1] = *pt;
            }
        }
        Edit::SetVersion(v) => {
            if !b.is_empty() {
                b[0] = b[0] & 0x3f | v << 6;
            }
        }
        Edit::SetP(p) => {
            if !b.is_empty() {
                b[0] = b[0] & 0xdf | (*p as u8) << 5;
            }
        }
        Edit::SetLast(v) => {
            if let Some(l) = b.last_mut() {
                *l = *v;
            }
        }
    }
}

/// representable leaf -> reference image (valid packets of every type, independent of the builders)
pub fn valid_image() -> BS<Vec<u8>> {
    leaf_spec(false, true).prop_map(|s| ref_encode(&s)).boxed()
}

/// (c) mutated-valid: reference image followed by 0..=3 edits
pub fn mutated_bytes() -> BS<Vec<u8>> {
    (valid_image(), vec(edit(), 0..=3))
        .prop_map(|(mut b, edits)| {
            for e in &edits {
                apply_edit(&mut b, e);
            }
            b
        })
        .boxed()
}

/// one "tile" for compounds
pub fn tile() -> BS<Vec<u8>> {
    prop_oneof![4 => valid_image(), 3 => framed_bytes(), 2 => mutated_bytes(), 1 => random_bytes()].boxed()
}

/// (d) concatenations of 1..=6 tiles, optionally with a damaged tail
pub fn concat_bytes() -> BS<Vec<u8>> {
    (vec(tile(), 1..=6), prop_oneof![6 => Just(None), 1 => edit().prop_map(Some)])
        .prop_map(|(tiles, e)| {
            let mut b: Vec<u8> = tiles.into_iter().flatten().collect();
            if let Some(e) = e {
                apply_edit(&mut b, &e);
            }
            b
        })
        .boxed()
}

/// the standard mixture for parser-side properties
pub fn parser_input() -> BS<Bytes> {
    prop_oneof![2 => random_bytes(), 4 => framed_bytes(), 5 => mutated_bytes(), 2 => concat_bytes(), 1 => valid_image()]
        .prop_map(Bytes)
        .boxed()
}

/// rare large inputs: just over 64 KiB and over 256 KiB (length field space exhausted)
pub fn big_bytes() -> BS<Bytes> {
    let size = prop_oneof![3 => 65_530usize..=65_560, 2 => 65_537usize..=70_000, 2 => 262_140usize..=262_160, 1 => 262_145usize..=270_000];
    (size, any::<u8>(), any::<u8>(), pt_choice(), prop_oneof![Just(0xffffu16), any::<u16>()], any::<u8>(), any::<u64>())
        .prop_map(|(n, b0, fill, pt, lf, last, salt)| {
            let mut b = vec![fill; n];
            // sprinkle some structure
            let mut x = salt | 1;
            for i in (0..n).step_by(97) {
                x ^= x << 13;
                x ^= x >> 7;
                x ^= x << 17;
                b[i] = x as u8;
            }
            b[0] = 0x80 | (b0 & 0x3f);
            b[1] = pt;
            let lf = if n % 4 == 0 && n / 4 >= 1 && n / 4 - 1 <= 0xffff && salt % 2 == 0 { (n / 4 - 1) as u16 } else { lf };
            b[2] = (lf >> 8) as u8;
            b[3] = lf as u8;
            b[n - 1] = last;
            Bytes(b)
        })
        .boxed()
}

/// (e) raw FCI bodies of any length 0..=40 (incl. non-multiples of 4)
pub fn fci_body() -> BS<Vec<u8>> {
    prop_oneof![
        4 => vec(any::<u8>(), 0..=40),
        2 => vec(prop_oneof![Just(0u8), Just(0xffu8), any::<u8>()], 0..=40),
        2 => fci_spec(false).prop_map(|f| ref_encode_fci(&f)),
        1 => (fci_spec(false), any::<u16>()).prop_map(|(f, p)| {
            let mut b = ref_encode_fci(&f);
            let n = at(p, b.len() + 1);
            b.truncate(n);
            b
        }),
    ]
    .boxed()
}

/// a feedback packet assembled by the harness: kind x format x FCI bytes (word-padded)
pub fn fb_packet() -> BS<Vec<u8>> {
    (any::<bool>(), prop_oneof![4 => 0u8..=5, 1 => 0u8..=31], any::<u32>(), any::<u32>(), fci_body(), prop_oneof![4 => Just(0u8), 1 => padding_ok()])
        .prop_map(|(transport, fmt, sender, media, mut fci, padding)| {
            while fci.len() % 4 != 0 {
                fci.push(0);
            }
            let mut b = vec![0x80 | fmt, if transport { 205 } else { 206 }, 0, 0];
            b.extend_from_slice(&sender.to_be_bytes());
            b.extend_from_slice(&media.to_be_bytes());
            b.extend_from_slice(&fci);
            if padding > 0 {
                b[0] |= 0x20;
                for _ in 1..padding {
                    b.push(0);
                }
                b.push(padding);
            }
            let w = (b.len() / 4 - 1) as u16;
            b[2] = (w >> 8) as u8;
            b[3] = w as u8;
            b
        })
        .boxed()
}
