//! C01 (no panic, always terminates), C09 (fields are the bytes on the wire, zero-copy),
//! C11 (compound tiling and iteration), C12 (dispatch and conversions).

use super::parse::{len_leg, HeaderSweep, LenCase};
use crate::drive::{diff, expected_observation, observe_packet};
use crate::gen;
use crate::model::*;
use crate::run::*;
use crate::{ensure, fail};
use proptest::prelude::*;
use rtcp_types::prelude::*;
use rtcp_types::*;
use serde::{Deserialize, Serialize};

/// run a closure that names its steps with `step(..)`; a panic becomes a Failure naming the step
fn scope<T>(f: impl FnOnce() -> T) -> Result<T, Failure> {
    guard(f).map_err(|c| Failure::new(format!("panic:{}", c.step), format!("{} panicked: {}", c.step, c.message)))
}

// ---------------------------------------------------------------------------------------------
// C01
// ---------------------------------------------------------------------------------------------

/// steps an iterator may take on an input of `len` bytes (largest true ratio: 17 NACK values per 4 bytes)
fn bound(len: usize) -> usize {
    5 * len + 8
}

struct Walk {
    len: usize,
    /// (iterator name, steps) of the first iterator that exceeded the bound
    over: Option<(&'static str, usize)>,
}

impl Walk {
    fn drain<I: Iterator>(&mut self, name: &'static str, it: I) -> usize {
        step(name);
        let b = bound(self.len);
        let n = it.take(b + 1).count();
        if n > b && self.over.is_none() {
            self.over = Some((name, n));
        }
        n
    }

    /// the other ways of consuming an iterator that `next()` drained in `n` steps: they must return
    /// normally too (what they return is judged by C11 / C15)
    fn other_ways<I: Iterator>(&mut self, name: &'static str, n: usize, mk: impl Fn() -> I) {
        if n > bound(self.len) || n > 100_000 {
            return;
        }
        step(name);
        let _ = mk().size_hint();
        let _ = mk().count();
        let _ = mk().last().is_some();
        for k in [0, 1, n / 2, n.saturating_sub(1), n, n + 1] {
            let mut it = mk();
            let _ = it.nth(k).is_some();
            let _ = it.next().is_some();
            let _ = it.count();
        }
        let _ = mk().skip(1).take(n + 1).count();
        let _ = mk().step_by(3).take(n + 1).count();
        // internal iteration and the short-circuiting searches (each is a provided method a type may override)
        let _ = mk().fold(0usize, |a, _| a + 1);
        let mut c = 0usize;
        mk().for_each(|_| c += 1);
        let _ = mk().find(|_| false).is_some();
        let _ = mk().position(|_| false);
        let _ = (mk().all(|_| true), mk().any(|_| false));
        let _ = mk().max_by(|_, _| std::cmp::Ordering::Equal).is_some();
        let _ = mk().min_by(|_, _| std::cmp::Ordering::Equal).is_some();
        let mut it = mk();
        let _ = it.by_ref().take(n / 2).count();
        let _ = it.count();
    }

    fn header<'a, P: RtcpPacketParser<'a>>(&mut self, p: &P) {
        step("header accessors");
        let _ = (p.version(), p.type_(), p.subtype(), p.length(), p.count(), p.header_data());
    }

    fn rb(&mut self, b: &ReportBlock) {
        step("ReportBlock accessors");
        let _ = (
            b.ssrc(),
            b.fraction_lost(),
            b.cumulative_lost(),
            b.extended_sequence_number(),
            b.interarrival_jitter(),
            b.last_sender_report_timestamp(),
            b.delay_since_last_sender_report_timestamp(),
        );
        let _ = format!("{b:?}");
        let _ = b == b;
    }

    fn sr(&mut self, p: &SenderReport) {
        self.header(p);
        step("SenderReport accessors");
        let _ = (p.padding(), p.n_reports(), p.ssrc(), p.ntp_timestamp(), p.rtp_timestamp(), p.packet_count(), p.octet_count());
        step("SenderReport::report_blocks");
        let blocks: Vec<ReportBlock> = p.report_blocks().take(bound(self.len) + 1).collect();
        if blocks.len() > bound(self.len) && self.over.is_none() {
            self.over = Some(("SenderReport::report_blocks", blocks.len()));
        }
        for b in &blocks {
            self.rb(b);
        }
        self.other_ways("SenderReport::report_blocks (count/last/nth/skip/step_by)", blocks.len(), || p.report_blocks());
        step("SenderReport Debug/Clone/PartialEq");
        let _ = format!("{p:?}");
        let _ = p.clone() == *p;
    }

    fn rr(&mut self, p: &ReceiverReport) {
        self.header(p);
        step("ReceiverReport accessors");
        let _ = (p.padding(), p.n_reports(), p.ssrc());
        step("ReceiverReport::report_blocks");
        let blocks: Vec<ReportBlock> = p.report_blocks().take(bound(self.len) + 1).collect();
        if blocks.len() > bound(self.len) && self.over.is_none() {
            self.over = Some(("ReceiverReport::report_blocks", blocks.len()));
        }
        for b in &blocks {
            self.rb(b);
        }
        self.other_ways("ReceiverReport::report_blocks (count/last/nth/skip/step_by)", blocks.len(), || p.report_blocks());
        step("ReceiverReport Debug/Clone/PartialEq");
        let _ = format!("{p:?}");
        let _ = p.clone() == *p;
    }

    fn sdes(&mut self, p: &Sdes) {
        self.header(p);
        step("Sdes::padding");
        let _ = p.padding();
        step("Sdes::chunks");
        let mut nchunks = 0usize;
        let mut nitems = 0usize;
        let cap = bound(self.len) + 1;
        for c in p.chunks().take(cap) {
            nchunks += 1;
            step("SdesChunk::ssrc");
            let _ = c.ssrc();
            step("SdesChunk::length");
            let _ = c.length();
            step("SdesChunk::items");
            for it in c.items().take(cap) {
                nitems += 1;
                step("SdesItem::type_");
                let ty = it.type_();
                step("SdesItem::length");
                let _ = it.length();
                step("SdesItem::value");
                let _ = it.value();
                step("SdesItem::get_value_string");
                let _ = it.get_value_string();
                // documented exemption: the PRIV accessors are only asked of PRIV items
                if ty == SdesItem::PRIV {
                    step("SdesItem::priv_prefix_len");
                    let _ = it.priv_prefix_len();
                    step("SdesItem::priv_prefix");
                    let _ = it.priv_prefix();
                }
                step("SdesItem Debug/Clone/PartialEq");
                let _ = format!("{it:?}");
                let _ = it.clone() == *it;
            }
            step("SdesChunk Debug/Clone/PartialEq");
            let _ = format!("{c:?}");
            let _ = c.clone() == *c;
        }
        if nchunks + nitems > bound(self.len) && self.over.is_none() {
            self.over = Some(("Sdes::chunks/items", nchunks + nitems));
        }
        step("Sdes Debug/Clone/PartialEq");
        let _ = format!("{p:?}");
        let _ = p.clone() == *p;
    }

    fn bye(&mut self, p: &Bye) {
        self.header(p);
        step("Bye::padding");
        let _ = p.padding();
        let n = self.drain("Bye::ssrcs", p.ssrcs());
        self.other_ways("Bye::ssrcs (count/last/nth/skip/step_by)", n, || p.ssrcs());
        step("Bye::reason");
        let _ = p.reason();
        step("Bye::get_reason_string");
        let _ = p.get_reason_string();
        step("Bye Debug/Clone/PartialEq");
        let _ = format!("{p:?}");
        let _ = p.clone() == *p;
    }

    fn app(&mut self, p: &App) {
        self.header(p);
        step("App::padding");
        let _ = p.padding();
        step("App::ssrc");
        let _ = p.ssrc();
        step("App::name");
        let _ = p.name();
        step("App::get_name_string");
        let _ = p.get_name_string();
        step("App::data");
        let _ = p.data();
        step("App Debug/Clone/PartialEq");
        let _ = format!("{p:?}");
        let _ = p.clone() == *p;
    }

    fn nack(&mut self, f: &Nack) {
        let n = self.drain("Nack::entries", f.entries());
        self.other_ways("Nack::entries (count/last/nth/skip/step_by)", n, || f.entries());
    }
    fn fir(&mut self, f: &Fir) {
        step("Fir::entries");
        let b = bound(self.len);
        let v: Vec<FirEntry> = f.entries().take(b + 1).collect();
        if v.len() > b && self.over.is_none() {
            self.over = Some(("Fir::entries", v.len()));
        }
        for e in v.iter().take(64) {
            step("FirEntry accessors");
            let _ = (e.ssrc(), e.sequence(), format!("{e:?}"), e == e);
        }
        self.other_ways("Fir::entries (count/last/nth/skip/step_by)", v.len(), || f.entries());
    }
    fn sli(&mut self, f: &Sli) {
        step("Sli::lost_macroblocks");
        let b = bound(self.len);
        let mut n = 0usize;
        for e in f.lost_macroblocks().take(b + 1) {
            n += 1;
            if n <= 64 {
                let _ = format!("{e:?}");
                let _ = e == e.clone();
            }
        }
        if n > b && self.over.is_none() {
            self.over = Some(("Sli::lost_macroblocks", n));
        }
        self.other_ways("Sli::lost_macroblocks (count/last/nth/skip/step_by)", n, || f.lost_macroblocks());
        step("Sli Debug");
        let _ = format!("{f:?}").len();
    }
    fn rpsi(&mut self, f: &Rpsi) {
        step("Rpsi::payload_type");
        let _ = f.payload_type();
        step("Rpsi::bit_string");
        let _ = f.bit_string();
        step("Rpsi Debug");
        let _ = format!("{f:?}").len();
    }

    fn tfb(&mut self, p: &TransportFeedback) {
        self.header(p);
        step("TransportFeedback accessors");
        let _ = (p.padding(), p.sender_ssrc(), p.media_ssrc());
        step("TransportFeedback::parse_fci::<Nack>");
        if let Ok(f) = p.parse_fci::<Nack>() {
            self.nack(&f);
        }
        step("TransportFeedback::parse_fci::<Pli>");
        let _ = p.parse_fci::<Pli>().map(|f| format!("{f:?}").len());
        step("TransportFeedback::parse_fci::<Sli>");
        if let Ok(f) = p.parse_fci::<Sli>() {
            self.sli(&f);
        }
        step("TransportFeedback::parse_fci::<Rpsi>");
        if let Ok(f) = p.parse_fci::<Rpsi>() {
            self.rpsi(&f);
        }
        step("TransportFeedback::parse_fci::<Fir>");
        if let Ok(f) = p.parse_fci::<Fir>() {
            self.fir(&f);
        }
        step("TransportFeedback Debug/Clone/PartialEq");
        let _ = format!("{p:?}");
        let _ = p.clone() == *p;
    }

    fn pfb(&mut self, p: &PayloadFeedback) {
        self.header(p);
        step("PayloadFeedback accessors");
        let _ = (p.padding(), p.sender_ssrc(), p.media_ssrc());
        step("PayloadFeedback::parse_fci::<Nack>");
        if let Ok(f) = p.parse_fci::<Nack>() {
            self.nack(&f);
        }
        step("PayloadFeedback::parse_fci::<Pli>");
        let _ = p.parse_fci::<Pli>().map(|f| format!("{f:?}").len());
        step("PayloadFeedback::parse_fci::<Sli>");
        if let Ok(f) = p.parse_fci::<Sli>() {
            self.sli(&f);
        }
        step("PayloadFeedback::parse_fci::<Rpsi>");
        if let Ok(f) = p.parse_fci::<Rpsi>() {
            self.rpsi(&f);
        }
        step("PayloadFeedback::parse_fci::<Fir>");
        if let Ok(f) = p.parse_fci::<Fir>() {
            self.fir(&f);
        }
        step("PayloadFeedback Debug/Clone/PartialEq");
        let _ = format!("{p:?}");
        let _ = p.clone() == *p;
    }

    fn unknown(&mut self, p: &Unknown) {
        self.header(p);
        step("Unknown::data");
        let _ = p.data();
        step("Unknown Debug/PartialEq");
        let _ = format!("{p:?}");
        let _ = p == p;
        macro_rules! conv {
            ($t:ty, $f:ident) => {{
                step(concat!("Unknown::try_as::<", stringify!($t), ">"));
                if let Ok(x) = p.try_as::<$t>() {
                    self.$f(&x);
                }
                step(concat!("TryFrom<&Unknown> for ", stringify!($t)));
                let _ = <$t>::try_from(p).is_ok();
            }};
        }
        conv!(SenderReport, sr);
        conv!(ReceiverReport, rr);
        conv!(Sdes, sdes);
        conv!(Bye, bye);
        conv!(App, app);
        conv!(TransportFeedback, tfb);
        conv!(PayloadFeedback, pfb);
    }

    fn packet(&mut self, p: &Packet, deep: bool) {
        step("Packet accessors");
        let _ = (p.is_unknown(), p.version(), p.type_(), p.subtype(), p.length(), p.count(), p.header_data());
        step("Packet Debug");
        let _ = format!("{p:?}");
        match p {
            Packet::App(x) => self.app(x),
            Packet::Bye(x) => self.bye(x),
            Packet::Rr(x) => self.rr(x),
            Packet::Sdes(x) => self.sdes(x),
            Packet::Sr(x) => self.sr(x),
            Packet::TransportFeedback(x) => self.tfb(x),
            Packet::PayloadFeedback(x) => self.pfb(x),
            Packet::Unknown(x) => self.unknown(x),
        }
        if deep {
            macro_rules! conv {
                ($t:ty) => {{
                    step(concat!("Packet::try_as::<", stringify!($t), ">"));
                    let _ = p.try_as::<$t>().is_ok();
                    step(concat!("TryFrom<&Packet> for ", stringify!($t)));
                    let _ = <$t>::try_from(p).is_ok();
                }};
            }
            conv!(SenderReport);
            conv!(ReceiverReport);
            conv!(Sdes);
            conv!(Bye);
            conv!(App);
            conv!(TransportFeedback);
            conv!(PayloadFeedback);
        }
    }
}

/// Every public parsing entry point on `b`, and on every value returned every public accessor,
/// conversion and iterator. Returns whether some packet-level parser accepted (compound, generic, typed, unknown,
/// report block): the raw FCI parsers do not count, `Nack::parse` accepts every string.
pub fn exercise_everything(b: &[u8]) -> Result<bool, Failure> {
    let len = b.len();
    let (accepted, over) = scope(|| {
        let mut w = Walk { len, over: None };
        let mut accepted = false;
        // compound + full iteration + 3 extra calls
        step("Compound::parse");
        if let Ok(mut c) = Compound::parse(b) {
            accepted = true;
            step("Compound Debug");
            let _ = format!("{c:?}").len();
            let mut n = 0usize;
            loop {
                step("Compound::next");
                match c.next() {
                    None => break,
                    Some(item) => {
                        n += 1;
                        if let Ok(p) = &item {
                            w.packet(p, n <= 4);
                        }
                        if n > bound(len) {
                            w.over = Some(("Compound::next", n));
                            break;
                        }
                    }
                }
            }
            for _ in 0..3 {
                step("Compound::next (after the end)");
                let _ = c.next().is_some();
            }
            w.other_ways("Compound (count/last/nth/skip/step_by)", n, || Compound::parse(b).expect("accepted above"));
            step("SdesChunk Debug");
        }
        step("Packet::parse");
        if let Ok(p) = Packet::parse(b) {
            accepted = true;
            w.packet(&p, true);
            // by-value conversions consume the packet: parse again for each
            macro_rules! byval {
                ($t:ty, $v:ident) => {{
                    if let Ok(p) = Packet::parse(b) {
                        step(concat!("TryFrom<Packet> for ", stringify!($t)));
                        if let Ok(x) = <$t>::try_from(p) {
                            step(concat!("From<", stringify!($t), "> for Packet"));
                            let back: Packet = x.into();
                            let _ = back.type_();
                        }
                    }
                }};
            }
            byval!(SenderReport, Sr);
            byval!(ReceiverReport, Rr);
            byval!(Sdes, Sdes);
            byval!(Bye, Bye);
            byval!(App, App);
            byval!(TransportFeedback, TransportFeedback);
            byval!(PayloadFeedback, PayloadFeedback);
        }
        macro_rules! typed {
            ($t:ty, $f:ident) => {{
                step(concat!(stringify!($t), "::parse"));
                if let Ok(p) = <$t>::parse(b) {
                    accepted = true;
                    w.$f(&p);
                }
            }};
        }
        typed!(SenderReport, sr);
        typed!(ReceiverReport, rr);
        typed!(Sdes, sdes);
        typed!(Bye, bye);
        typed!(App, app);
        typed!(TransportFeedback, tfb);
        typed!(PayloadFeedback, pfb);
        step("Unknown::parse");
        if let Ok(u) = Unknown::parse(b) {
            accepted = true;
            w.unknown(&u);
            macro_rules! byval {
                ($t:ty) => {{
                    if let Ok(u) = Unknown::parse(b) {
                        step(concat!("TryFrom<Unknown> for ", stringify!($t)));
                        let _ = <$t>::try_from(u).is_ok();
                    }
                }};
            }
            byval!(SenderReport);
            byval!(ReceiverReport);
            byval!(Sdes);
            byval!(Bye);
            byval!(App);
            byval!(TransportFeedback);
            byval!(PayloadFeedback);
            if let Ok(u) = Unknown::parse(b) {
                step("From<Unknown> for Packet");
                let p: Packet = u.into();
                let _ = p.is_unknown();
            }
        }
        step("ReportBlock::parse");
        if let Ok(r) = ReportBlock::parse(b) {
            accepted = true;
            w.rb(&r);
        }
        step("Nack::parse");
        if let Ok(f) = <Nack as FciParser>::parse(b) {
            w.nack(&f);
        }
        step("Pli::parse");
        if let Ok(f) = <Pli as FciParser>::parse(b) {
            let _ = format!("{f:?}").len();
        }
        step("Sli::parse");
        if let Ok(f) = <Sli as FciParser>::parse(b) {
            w.sli(&f);
        }
        step("Rpsi::parse");
        if let Ok(f) = <Rpsi as FciParser>::parse(b) {
            w.rpsi(&f);
        }
        step("Fir::parse");
        if let Ok(f) = <Fir as FciParser>::parse(b) {
            w.fir(&f);
        }
        (accepted, w.over)
    })?;
    if let Some((name, n)) = over {
        fail!(format!("unbounded-iterator:{name}"), "{name} took {n} steps on an input of {len} bytes (bound {})", bound(len));
    }
    Ok(accepted)
}

pub(crate) fn c01_oracle(c: &Bytes, st: &mut Stats) -> Verdict {
    let b = &c.0[..];
    st.label(match b.len() {
        0 => "len:0",
        1..=3 => "len:1-3",
        4..=64 => "len:4-64",
        65..=1024 => "len:65-1024",
        1025..=65535 => "len:1025-65535",
        _ => "len:>=64KiB",
    });
    st.label_if(b.len() % 4 != 0, "len not a multiple of 4");
    let accepted = exercise_everything(b).map_err(|f| Failure::new(format!("C01:{}", f.signature), format!("{}; input {}", f.detail, one_line(&hex(b), 600))))?;
    if accepted {
        st.nontrivial();
        st.label("accepted by a packet-level parser (accessors ran)");
    }
    Ok(())
}

pub(crate) fn c01_len_oracle(c: &LenCase, st: &mut Stats) -> Verdict {
    c01_oracle(&c.bytes(), st)
}

fn short_strings(i: u64) -> Bytes {
    // every string of length <= 2
    if i == 0 {
        Bytes(vec![])
    } else if i <= 256 {
        Bytes(vec![(i - 1) as u8])
    } else {
        let k = i - 257;
        Bytes(vec![(k >> 8) as u8, k as u8])
    }
}

/// FCI-shaped and SDES-shaped inputs that the mixture reaches rarely
fn shaped_input() -> BoxedStrategy<Bytes> {
    let sdes_body = proptest::collection::vec(
        prop_oneof![4 => Just(0u8), 2 => Just(8u8), 2 => 1u8..=9, 1 => Just(0xffu8), 2 => any::<u8>()],
        0..=40,
    )
    .prop_flat_map(|body| {
        (Just(body), any::<bool>(), prop_oneof![Just(4u8), Just(1u8), Just(8u8), any::<u8>()], 0u8..=3).prop_map(|(mut body, p, last, count)| {
            while body.len() % 4 != 0 {
                body.push(0);
            }
            let mut b = vec![0x80 | (p as u8) << 5 | count, 202, 0, 0];
            b.extend_from_slice(&body);
            if p && b.len() > 4 {
                let n = b.len();
                b[n - 1] = last;
            }
            let w = (b.len() / 4 - 1) as u16;
            b[2] = (w >> 8) as u8;
            b[3] = w as u8;
            b
        })
    });
    prop_oneof![3 => gen::fb_packet(), 2 => gen::fci_body(), 3 => sdes_body].prop_map(Bytes).boxed()
}

pub fn c01(tier: Tier) -> Check {
    let sweep = std::sync::Arc::new(HeaderSweep::new(Tier::Quick));
    let n = sweep.n();
    Check {
        property: "C01",
        rule: "cases = byte strings (random, framed, mutated reference images, concatenations, feedback packets with arbitrary FCI, SDES-shaped bodies, raw FCI bodies of any length, rare inputs of 64 KiB..270 KB) \
               + every string of length <= 2 + the header-space sweep; calls: Compound::parse + full iteration + 3 extra next(), Packet::parse, the 7 typed parsers, Unknown::parse, ReportBlock::parse, the 5 FCI parsers, \
               and on every Ok all public accessors, iterators, conversions (try_as, TryFrom by value and by reference, From<T> for Packet) and Debug/Clone/PartialEq; priv_prefix(_len) only on PRIV items (documented exemption); \
               oracle: no unwind, every iterator ends within 5*len+8 steps; non-trivial = a packet-level parser (compound, generic, typed, unknown, report block) accepted, so its accessors ran - the raw FCI parsers do not count, Nack::parse accepts every string",
        assumptions: vec![
            "termination inside one call is decided by a watchdog (6 s per case, normal cost microseconds) confirmed in a fresh subprocess; iterator termination by step counting",
            "built with debug assertions and overflow checks on, as in a user's dev build",
        ],
        legs: vec![
            Box::new(RandomLeg { name: "generated-strings", cases: tier.pick(500_000, 4_000_000), make: Box::new(gen::parser_input), oracle: c01_oracle }),
            Box::new(RandomLeg { name: "fci-and-sdes-shaped", cases: tier.pick(400_000, 3_000_000), make: Box::new(shaped_input), oracle: c01_oracle }),
            Box::new(RandomLeg { name: "large-inputs", cases: tier.pick(480, 2_000), make: Box::new(gen::big_bytes), oracle: c01_oracle }),
            Box::new(SweepLeg { name: "all-strings-up-to-2-bytes", n: 1 + 256 + 65536, at: Box::new(short_strings), oracle: c01_oracle, exhaustive: true }),
            Box::new(SweepLeg { name: "header-space", n, at: Box::new(move |i| sweep.at(i)), oracle: c01_oracle, exhaustive: true }),
            // a selection of length fields (0..=40, powers of two +-1, the top): every accessor incl. Debug runs over up to 512 KiB
            super::parse::len_leg_small(c01_len_oracle),
        ],
    }
}

// ---------------------------------------------------------------------------------------------
// C09
// ---------------------------------------------------------------------------------------------

fn sub_slice(what: &str, s: &[u8], b: &[u8], off: usize, len: usize) -> Verdict {
    let base = b.as_ptr() as usize;
    let p = s.as_ptr() as usize;
    ensure!(
        // an empty slice holds no bytes from anywhere: its address is not judged
        s.len() == len && (len == 0 || p == base + off),
        format!("C09:{what}:not-the-expected-sub-slice"),
        "{what} returned a slice of {} bytes at input offset {} (want {len} bytes at offset {off}); input {}",
        s.len(),
        p as isize - base as isize,
        hex(b)
    );
    Ok(())
}

/// a per-input number that picks the positions the iterator-protocol checks probe
fn salt_of(b: &[u8]) -> u64 {
    b.iter().fold(0xcbf2_9ce4_8422_2325u64, |h, &x| (h ^ x as u64).wrapping_mul(0x0000_0100_0000_01b3))
}

type RbFields = (u32, u8, u32, u32, u32, u32, u32);

fn rb_fields(rb: &ReportBlock) -> RbFields {
    (
        rb.ssrc(),
        rb.fraction_lost(),
        rb.cumulative_lost(),
        rb.extended_sequence_number(),
        rb.interarrival_jitter(),
        rb.last_sender_report_timestamp(),
        rb.delay_since_last_sender_report_timestamp(),
    )
}

fn c09_blocks(name: &str, b: &[u8], base: usize, count: usize, blocks: &[ReportBlock]) -> Verdict {
    ensure!(blocks.len() == count, format!("C09:{name}:report-block-count"), "{} blocks yielded, count field says {count}; input {}", blocks.len(), hex(b));
    for (i, rb) in blocks.iter().enumerate() {
        let o = base + 24 * i;
        let got = (
            rb.ssrc(),
            rb.fraction_lost(),
            rb.cumulative_lost(),
            rb.extended_sequence_number(),
            rb.interarrival_jitter(),
            rb.last_sender_report_timestamp(),
            rb.delay_since_last_sender_report_timestamp(),
        );
        let want = (be32(b, o), b[o + 4], be32(b, o + 4) & 0x00ff_ffff, be32(b, o + 8), be32(b, o + 12), be32(b, o + 16), be32(b, o + 20));
        ensure!(got == want, format!("C09:{name}:report-block-field"), "block {i}: accessors {got:?}, wire {want:?}; input {}", hex(b));
    }
    Ok(())
}

/// the reference reads below index the input at the RFC offsets; an input that a parser accepted although it is
/// too short for its fixed layout is reported as that (C08's business as well), not as a harness index panic
fn long_enough(name: &str, b: &[u8], need: usize) -> Verdict {
    ensure!(b.len() >= need, format!("C09:{name}:accepted-shorter-than-its-fixed-layout"), "{name}::parse accepted {} bytes, the fields read by its accessors end at byte {need}; input {}", b.len(), hex(b));
    Ok(())
}

pub(crate) fn c09_oracle(c: &Bytes, st: &mut Stats) -> Verdict {
    let b = &c.0[..];
    if b.len() < 4 {
        st.label("too short");
        return Ok(());
    }
    let h = ref_hdr(b);
    let pad = if h.p { b[b.len() - 1] as usize } else { 0 };
    let r: Result<(), Failure> = scope(|| -> Verdict {
        step("SenderReport::parse");
        if let Ok(p) = SenderReport::parse(b) {
            st.nontrivial();
            st.label("SR");
            long_enough("SenderReport", b, 28 + 24 * h.count as usize)?;
            step("SenderReport accessors");
            let got = (p.ssrc(), p.ntp_timestamp(), p.rtp_timestamp(), p.packet_count(), p.octet_count(), p.n_reports());
            let want = (be32(b, 4), be64(b, 8), be32(b, 16), be32(b, 20), be32(b, 24), h.count);
            ensure!(got == want, "C09:SenderReport:field", "accessors {got:?}, wire {want:?}; input {}", hex(b));
            step("SenderReport::report_blocks");
            let blocks: Vec<ReportBlock> = p.report_blocks().collect();
            c09_blocks("SenderReport", b, 28, h.count as usize, &blocks)?;
            // the same blocks whichever way the iterator is driven (nth, skip, step_by, count, last, a clone)
            let want: Vec<RbFields> = blocks.iter().map(rb_fields).collect();
            super::common::iter_protocol("SenderReport::report_blocks", "C09", || p.report_blocks(), |rb| rb_fields(&rb), &want, salt_of(b), false)?;
        }
        step("ReceiverReport::parse");
        if let Ok(p) = ReceiverReport::parse(b) {
            st.nontrivial();
            st.label("RR");
            long_enough("ReceiverReport", b, 8 + 24 * h.count as usize)?;
            let got = (p.ssrc(), p.n_reports());
            ensure!(got == (be32(b, 4), h.count), "C09:ReceiverReport:field", "accessors {got:?}; input {}", hex(b));
            step("ReceiverReport::report_blocks");
            let blocks: Vec<ReportBlock> = p.report_blocks().collect();
            c09_blocks("ReceiverReport", b, 8, h.count as usize, &blocks)?;
            let want: Vec<RbFields> = blocks.iter().map(rb_fields).collect();
            super::common::iter_protocol("ReceiverReport::report_blocks", "C09", || p.report_blocks(), |rb| rb_fields(&rb), &want, salt_of(b), false)?;
        }
        step("ReportBlock::parse");
        if let Ok(rb) = ReportBlock::parse(b) {
            st.nontrivial();
            st.label("ReportBlock");
            long_enough("ReportBlock", b, 24)?;
            c09_blocks("ReportBlock", b, 0, 1, &[rb])?;
        }
        step("App::parse");
        if let Ok(p) = App::parse(b) {
            st.nontrivial();
            st.label("APP");
            long_enough("App", b, 12)?;
            step("App accessors");
            let got = (p.ssrc(), p.name(), p.subtype());
            let want = (be32(b, 4), [b[8], b[9], b[10], b[11]], h.count);
            ensure!(got == want, "C09:App:field", "accessors {got:?}, wire {want:?}; input {}", hex(b));
            // the name as a string is made of the name field's bytes: up to the first NUL (what the code documents),
            // or with only the trailing NULs dropped, or all four - never bytes spliced together across a NUL
            step("App::get_name_string");
            let name = [b[8], b[9], b[10], b[11]];
            let got = p.get_name_string().ok();
            let first_nul = name.iter().position(|&x| x == 0).unwrap_or(4);
            let trimmed = 4 - name.iter().rev().take_while(|&&x| x == 0).count();
            let cands = [first_nul, trimmed, 4].map(|n| String::from_utf8(name[..n].to_vec()).ok());
            ensure!(cands.contains(&got), "C09:App:name-string", "get_name_string() = {got:?} for the name bytes {name:?}; input {}", hex(b));
            if first_nul < trimmed {
                st.label("APP name with an interior NUL");
            }
            step("App::data");
            let d = p.data();
            if pad % 4 == 0 && pad + 12 <= b.len() {
                sub_slice("App::data", d, b, 12, b.len() - pad - 12)?;
            } else {
                // either-zones: a padding count that is not a multiple of 4, or larger than the bytes after the fixed part
                st.label("either-zone: APP padding count not a multiple of 4 or larger than the body");
                sub_slice("App::data", d, b, 12, d.len())?;
            }
        }
        step("Bye::parse");
        if let Ok(p) = Bye::parse(b) {
            st.label("BYE");
            let c = h.count as usize;
            long_enough("Bye", b, 4 + 4 * c)?;
            step("Bye::ssrcs");
            let got: Vec<u32> = p.ssrcs().collect();
            let want: Vec<u32> = (0..c).map(|i| be32(b, 4 + 4 * i)).collect();
            ensure!(got == want, "C09:Bye:sources", "ssrcs() {got:?}, wire {want:?}; input {}", hex(b));
            super::common::iter_protocol("Bye::ssrcs", "C09", || p.ssrcs(), |x| x, &want, salt_of(b), false)?;
            step("Bye::reason");
            let reason = p.reason();
            let off = 4 + 4 * c;
            let end = b.len() - pad.min(b.len());
            if pad % 4 != 0 || off > end {
                st.label("either-zone: BYE padding overlaps the sources or is not a multiple of 4");
            } else if off == end {
                st.nontrivial();
                ensure!(reason.is_none(), "C09:Bye:reason-invented", "no byte between sources and padding, reason() = {reason:?}; input {}", hex(b));
            } else {
                let l = b[off] as usize;
                if off + 1 + l > end {
                    st.label("either-zone: BYE reason runs into the padding");
                } else if l == 0 {
                    st.label("either-zone: BYE zero length reason (None or empty)");
                    ensure!(reason.map(|r| r.is_empty()).unwrap_or(true), "C09:Bye:reason", "zero length octet, reason() = {reason:?}; input {}", hex(b));
                } else {
                    st.nontrivial();
                    st.label("BYE with reason");
                    match reason {
                        None => fail!("C09:Bye:reason-missing", "length octet {l} at offset {off}, reason() = None; input {}", hex(b)),
                        Some(r) => sub_slice("Bye::reason", r, b, off + 1, l)?,
                    }
                }
            }
        }
        step("TransportFeedback::parse");
        if let Ok(p) = TransportFeedback::parse(b) {
            st.nontrivial();
            st.label("TFB");
            long_enough("TransportFeedback", b, 12)?;
            let got = (p.sender_ssrc(), p.media_ssrc(), p.count());
            ensure!(got == (be32(b, 4), be32(b, 8), h.count), "C09:TransportFeedback:field", "accessors {got:?}; input {}", hex(b));
        }
        step("PayloadFeedback::parse");
        if let Ok(p) = PayloadFeedback::parse(b) {
            st.nontrivial();
            st.label("PFB");
            long_enough("PayloadFeedback", b, 12)?;
            let got = (p.sender_ssrc(), p.media_ssrc(), p.count());
            ensure!(got == (be32(b, 4), be32(b, 8), h.count), "C09:PayloadFeedback:field", "accessors {got:?}; input {}", hex(b));
        }
        step("Unknown::parse");
        if let Ok(p) = Unknown::parse(b) {
            st.nontrivial();
            st.label("UNKNOWN");
            step("Unknown::data");
            sub_slice("Unknown::data", p.data(), b, 0, b.len())?;
            ensure!((p.type_(), p.count()) == (b[1], h.count), "C09:Unknown:field", "type/count accessors; input {}", hex(b));
        }
        Ok(())
    })
    .map_err(|f| Failure::new(format!("C09:{}", f.signature), f.detail))?;
    r
}

/// well-formed packets from the independent encoder must be accepted and read back to the spec
pub(crate) fn c09_ref_oracle(spec: &PacketSpec, st: &mut Stats) -> Verdict {
    st.label(&spec.long_name());
    st.nontrivial();
    let bytes = ref_encode(spec);
    let mut observed = observe_packet(&bytes).map_err(|f| Failure::new(format!("C09:{}:{}", spec.long_name(), f.signature), f.detail))?;
    if let Some(e) = observed.get("error") {
        fail!(format!("C09:{}:well-formed-packet-rejected", spec.long_name()), "the parser rejects a well-formed packet with {e}; bytes {}", hex(&bytes));
    }
    let mut expected = expected_observation(spec);
    // FCI decoding is C15's / C05's business, SDES tokenisation C10's
    for v in [&mut observed, &mut expected] {
        if let Some(o) = v.as_object_mut() {
            o.remove("fci");
        }
    }
    if let Some((short, detail)) = diff(&expected, &observed) {
        fail!(format!("C09:{}:{short}", spec.long_name()), "{detail}; bytes {}", hex(&bytes));
    }
    // RFC 3550 defines only the last padding octet (the count): an encoder may leave anything in the others
    let pad = spec.padding() as usize;
    if pad >= 2 && !matches!(spec, PacketSpec::Compound(_)) && pad < bytes.len() {
        st.label("padding filled with non-zero octets");
        let mut filled = bytes.clone();
        let n = filled.len();
        for (i, x) in filled[n - pad..n - 1].iter_mut().enumerate() {
            *x = 0xa5 ^ (i as u8).wrapping_mul(0x3b) | 1;
        }
        let mut obs = observe_packet(&filled).map_err(|f| Failure::new(format!("C09:{}:{}", spec.long_name(), f.signature), f.detail))?;
        if let Some(e) = obs.get("error") {
            fail!(format!("C09:{}:well-formed-packet-rejected:padding-octets", spec.long_name()), "the parser rejects a well-formed packet whose padding octets are not zero with {e}; bytes {}", hex(&filled));
        }
        if let Some(o) = obs.as_object_mut() {
            o.remove("fci");
        }
        // an unknown packet exposes its bytes as they are, padding included
        let mut expected = expected.clone();
        if expected.get("bytes").is_some() {
            expected["bytes"] = serde_json::Value::String(hex(&filled));
        }
        if let Some((short, detail)) = diff(&expected, &obs) {
            fail!(format!("C09:{}:{short}:padding-octets", spec.long_name()), "{detail}; bytes {}", hex(&filled));
        }
    }
    // the unknown parser exposes the same packet unchanged
    let same = no_panic("Unknown::parse", || Unknown::parse(&bytes).map(|u| u.data().as_ptr() == bytes.as_ptr() && u.data().len() == bytes.len()))?;
    ensure!(same == Ok(true), format!("C09:{}:unknown-view", spec.long_name()), "Unknown::parse of a well-formed packet: {same:?}");
    Ok(())
}

/// zero-bodied packets of every length field: the exactly framed ones must be accepted by the unknown
/// parser (and by the APP parser when they carry its type), exposing exactly the caller's bytes
pub(crate) fn c09_len_oracle(c: &LenCase, st: &mut Stats) -> Verdict {
    let bytes = c.bytes();
    let b = &bytes.0[..];
    let padded_ok = c.p && c.len >= 8 && c.last != 0 && c.last % 4 == 0 && (c.last as usize) <= b.len() - 4;
    if c.exact() && (!c.p || padded_ok) {
        st.label("exactly framed: must be accepted");
        let u = no_panic("Unknown::parse", || Unknown::parse(b))?;
        let u = match u {
            Ok(u) => u,
            Err(e) => fail!("C09:Unknown:rejected-well-formed", "Unknown::parse = Err({e:?}) on a well-framed {}-byte packet with length field {:#06x}", b.len(), c.lf),
        };
        let d = no_panic("Unknown::data", || u.data())?;
        ensure!(d.as_ptr() == b.as_ptr() && d.len() == b.len(), "C09:Unknown:data-not-the-input", "Unknown::data() is {} bytes at another address than the {}-byte input", d.len(), b.len());
        let pad = if c.p { c.last as usize } else { 0 };
        if c.pt == 204 && b.len() >= 12 + pad {
            let a = no_panic("App::parse", || App::parse(b))?;
            let a = match a {
                Ok(a) => a,
                Err(e) => fail!("C09:App:rejected-well-formed", "App::parse = Err({e:?}) on a well-framed {}-byte APP packet with length field {:#06x}", b.len(), c.lf),
            };
            let d = no_panic("App::data", || a.data())?;
            sub_slice("App::data", d, b, 12, b.len() - 12 - pad)?;
        }
    }
    c09_oracle(&bytes, st)
}

/// a report block on its own, encoded by the reference (RFC 3550 6.4.1): `ReportBlock::parse` must accept the 24
/// bytes and read every field back
pub(crate) fn c09_rb_oracle(s: &RbSpec, st: &mut Stats) -> Verdict {
    st.nontrivial();
    let mut b = Vec::with_capacity(24);
    b.extend_from_slice(&s.ssrc.to_be_bytes());
    b.push(s.fraction_lost);
    b.extend_from_slice(&s.cumulative_lost.to_be_bytes()[1..]);
    for x in [s.ext_seq, s.jitter, s.lsr, s.dlsr] {
        b.extend_from_slice(&x.to_be_bytes());
    }
    st.label_if(s.cumulative_lost >> 16 != 0 && s.fraction_lost != 0, "cumulative_lost top byte != 0 next to fraction_lost != 0");
    let r = no_panic("ReportBlock::parse", || ReportBlock::parse(&b))?;
    let rb = match r {
        Ok(rb) => rb,
        Err(e) => fail!("C09:ReportBlock:rejected-well-formed", "ReportBlock::parse = Err({e:?}) on {}", hex(&b)),
    };
    let got = no_panic("ReportBlock accessors", || {
        (rb.ssrc(), rb.fraction_lost(), rb.cumulative_lost(), rb.extended_sequence_number(), rb.interarrival_jitter(), rb.last_sender_report_timestamp(), rb.delay_since_last_sender_report_timestamp())
    })?;
    let want = (s.ssrc, s.fraction_lost, s.cumulative_lost, s.ext_seq, s.jitter, s.lsr, s.dlsr);
    ensure!(got == want, "C09:ReportBlock:field", "accessors {got:?}, encoded {want:?}; bytes {}", hex(&b));
    Ok(())
}

pub(crate) fn c12_len_oracle(c: &LenCase, st: &mut Stats) -> Verdict {
    c12_oracle(&c.bytes(), st)
}

pub fn c09(tier: Tier) -> Check {
    Check {
        property: "C09",
        rule: "cases = (1) generated byte strings (framed / mutated reference images / random): for every string SR, RR, ReportBlock, APP, BYE, feedback or Unknown parser accepts, each accessor is compared with a \
               reference read at the RFC offset (be32/be64/24-bit mask/byte ranges) and every returned slice (APP payload, BYE reason, Unknown data) must be the sub-slice of the input at the expected offset (pointer and length); \
               (2) reference-encoded packets of random representable specs must be accepted and read back to the spec; non-trivial = accepted with a non-header field",
        assumptions: vec!["either-zones (no value demanded): padding count not a multiple of 4, BYE reason whose length octet runs into the padding, BYE zero length octet (None or empty)"],
        legs: vec![
            Box::new(RandomLeg { name: "generated-strings", cases: tier.pick(600_000, 5_000_000), make: Box::new(gen::parser_input), oracle: c09_oracle }),
            Box::new(RandomLeg {
                name: "mutated-valid-only",
                cases: tier.pick(300_000, 2_000_000),
                make: Box::new(|| prop_oneof![gen::mutated_bytes(), gen::valid_image()].prop_map(Bytes).boxed()),
                oracle: c09_oracle,
            }),
            Box::new(RandomLeg { name: "reference-encoded-specs", cases: tier.pick(180_000, 1_500_000), make: Box::new(|| {
                    // an unknown-builder packet that carries the type number of a known kind is not a well-formed packet of that kind
                    gen::leaf_spec(false, true)
                        .prop_map(|mut s| {
                            if let PacketSpec::Unknown(u) = &mut s {
                                if (200..=206).contains(&u.pt) {
                                    u.pt += 7;
                                }
                            }
                            s
                        })
                        .boxed()
                }), oracle: c09_ref_oracle }),
            len_leg(tier, c09_len_oracle),
            Box::new(RandomLeg { name: "reference-encoded-report-blocks", cases: tier.pick(60_000, 600_000), make: Box::new(|| gen::rb_spec(false)), oracle: c09_rb_oracle }),
        ],
    }
}

// ---------------------------------------------------------------------------------------------
// C11
// ---------------------------------------------------------------------------------------------

#[derive(Clone, Debug, PartialEq, Eq, Hash, Serialize, Deserialize)]
pub struct CompoundCase {
    pub bytes: Bytes,
    /// next() calls after the expected end
    pub extra: u8,
}

pub(crate) fn c11_oracle(c: &CompoundCase, st: &mut Stats) -> Verdict {
    let b = &c.bytes.0[..];
    let tiles = ref_tile(b);
    let parsed = no_panic("Compound::parse", || Compound::parse(b))?;
    let (mut it, tiles) = match (parsed, tiles) {
        (Err(_), None) => {
            st.label("rejected (chain does not tile)");
            return Ok(());
        }
        (Ok(_), None) => fail!("C11:accepted-untiled", "Compound::parse accepted a string whose length chain does not partition it: {}", hex(b)),
        (Err(e), Some(t)) => fail!("C11:rejected-tiled", "Compound::parse = Err({e:?}) although the length chain partitions the string into {} packets: {}", t.len(), hex(b)),
        (Ok(it), Some(t)) => (it, t),
    };
    st.label(&format!("tiles:{}", tiles.len().min(7)));
    let mut finished = false;
    let mut yielded = 0usize;
    let mut err_not_last = false;
    for call in 0..tiles.len() + c.extra as usize {
        let got = no_panic("Compound::next", || it.next())?;
        if finished || call >= tiles.len() {
            ensure!(got.is_none(), "C11:yields-after-end", "call {call}: iteration had finished but next() returned {got:?}; input {}", hex(b));
            continue;
        }
        let (a, e) = tiles[call];
        let want = no_panic("Packet::parse", || Packet::parse(&b[a..e]))?;
        match (got, want) {
            (None, _) => fail!("C11:ends-early", "call {call}: next() = None but tile {call} of {} was not yielded; input {}", tiles.len(), hex(b)),
            (Some(Ok(g)), Ok(w)) => {
                // the yielded packet is a view of exactly this tile (its Debug text may not print every byte)
                let (hd, ln) = no_panic("Packet::header_data / length", || (g.header_data(), g.length()))?;
                ensure!(hd[..] == b[a..a + 4] && ln == e - a, "C11:item-is-not-the-tile", "tile {call} is bytes {a}..{e} with header {}, the yielded packet has header {} and length {ln}", hex(&b[a..a + 4]), hex(&hd));
                let (dg, dw) = (format!("{g:?}"), format!("{w:?}"));
                ensure!(dg == dw, "C11:item-differs-from-generic-parse", "tile {call}: yielded {dg}, Packet::parse gives {dw}");
            }
            (Some(Err(g)), Err(w)) => {
                ensure!(g == w, "C11:error-differs-from-generic-parse", "tile {call}: yielded Err({g:?}), Packet::parse gives Err({w:?})");
                finished = true;
                if call + 1 < tiles.len() {
                    err_not_last = true;
                }
            }
            (Some(g), w) => fail!("C11:item-differs-from-generic-parse", "tile {call}: yielded {g:?}, Packet::parse gives {w:?}; input {}", hex(b)),
        }
        yielded += 1;
        if call + 1 == tiles.len() {
            finished = true;
        }
    }
    ensure!(yielded <= tiles.len(), "C11:more-items-than-tiles", "{yielded} items for {} tiles", tiles.len());
    // every other way of iterating (nth, skip, step_by, count, last) must see the same sequence
    if b.len() <= 8192 {
        let mut expected: Vec<String> = Vec::new();
        for (a, e) in &tiles {
            let r = no_panic("Packet::parse", || Packet::parse(&b[*a..*e]))?;
            let is_err = r.is_err();
            expected.push(format!("{r:?}"));
            if is_err {
                break;
            }
        }
        let salt = b.iter().fold(c.extra as u64, |h, x| h.wrapping_mul(0x100_0000_01b3).wrapping_add(*x as u64));
        no_panic("Compound iterator protocol", || {
            super::common::iter_protocol("Compound", "C11", || Compound::parse(b).expect("accepted above"), |item| format!("{item:?}"), &expected, salt, true)
        })??;
        st.label("iterator protocol checked (nth / skip / step_by / count / last)");
    }
    st.label_if(err_not_last, "erroring tile that is not last");
    if tiles.len() >= 2 || err_not_last {
        st.nontrivial();
    }
    Ok(())
}

fn compound_case() -> BoxedStrategy<CompoundCase> {
    let tail = prop_oneof![
        6 => Just(Vec::new()),
        1 => proptest::collection::vec(any::<u8>(), 1..=3),
        1 => Just(vec![0x80, 0xc9, 0x00, 0x05]),
        1 => Just(vec![0x80, 0xcb, 0xff, 0xff, 0, 0, 0, 0]),
    ];
    // tiles that are SDES packets with item-level defects (errors other than framing ones) among valid tiles
    let sdes_mix = proptest::collection::vec(prop_oneof![2 => super::sdes::token_level().prop_map(|b| b.0), 1 => super::sdes::mutated_sdes().prop_map(|b| b.0), 2 => gen::valid_image()], 1..=5)
        .prop_map(|tiles| tiles.into_iter().flatten().collect::<Vec<u8>>());
    (prop_oneof![5 => gen::concat_bytes(), 2 => sdes_mix], tail, 0u8..=5, prop_oneof![8 => Just(None), 1 => any::<u16>().prop_map(Some)])
        .prop_map(|(mut b, tail, extra, cut)| {
            b.extend_from_slice(&tail);
            if let Some(c) = cut {
                let n = (c as usize * (b.len() + 1)) >> 16;
                b.truncate(n);
            }
            CompoundCase { bytes: Bytes(b), extra }
        })
        .boxed()
}

/// datagrams beyond 64 KiB, given as runs of zero-bodied tiles (packet type, length field, repeat)
#[derive(Clone, Debug, PartialEq, Eq, Hash, Serialize, Deserialize)]
pub struct BigTiling {
    pub runs: Vec<(u8, u16, u32)>,
    /// stray bytes after the last tile
    pub tail: u8,
    pub extra: u8,
}

fn big_tilings() -> Vec<BigTiling> {
    let mut v = Vec::new();
    let shapes: Vec<Vec<(u8, u16, u32)>> = vec![
        vec![(204, 0x3fff, 1)],                  // one 65536-byte tile
        vec![(204, 0x4000, 1)],                  // one 65540-byte tile
        vec![(207, 0xffff, 1)],                  // the largest packet there is
        vec![(201, 1, 8192), (203, 0, 1)],       // 8192 receiver reports and a BYE: 65540 bytes
        vec![(203, 0, 16385)],                   // 16385 header-only BYEs: 65540 bytes
        vec![(201, 1, 1), (204, 0x4e20, 1)],     // a small tile, then an 80 KB APP
        vec![(204, 0xffff, 1), (203, 0, 1)],     // 256 KiB, then a BYE
        vec![(200, 6, 3000), (202, 0, 1), (203, 0, 1)],
        vec![(203, 0, 16384)],                   // exactly 65536 bytes
        vec![(201, 1, 8191), (203, 0, 1)],       // just below 64 KiB: 65532 bytes
        vec![(203, 0, 65535)],                   // the number of tiles around 2^16
        vec![(203, 0, 65536)],
        vec![(203, 0, 65537)],
        vec![(203, 0, 65535), (201, 1, 3)],
    ];
    for runs in shapes {
        for tail in [0u8, 1, 3] {
            v.push(BigTiling { runs: runs.clone(), tail, extra: 2 });
        }
    }
    v
}

pub(crate) fn c11_big_oracle(c: &BigTiling, st: &mut Stats) -> Verdict {
    let mut b = Vec::new();
    for (pt, lf, rep) in &c.runs {
        for _ in 0..*rep {
            let at = b.len();
            b.resize(at + 4 * (*lf as usize + 1), 0);
            b[at..at + 4].copy_from_slice(&[0x80, *pt, (*lf >> 8) as u8, *lf as u8]);
        }
    }
    b.resize(b.len() + c.tail as usize, 0x80);
    st.label(if b.len() > 65535 { "datagram > 65535 bytes" } else { "datagram <= 65535 bytes" });
    c11_oracle(&CompoundCase { bytes: Bytes(b), extra: c.extra }, st)
}

const CH_LF: [u16; 6] = [0, 1, 2, 3, 5, 0xffff];
const CH_PT: [u8; 3] = [200, 203, 99];

/// all chains of k words, each word a header candidate (0x80, PT, length field)
fn chain_sweep(max_words: u32) -> (u64, impl Fn(u64) -> CompoundCase) {
    let per = (CH_LF.len() * CH_PT.len()) as u64;
    let mut total = 0u64;
    let mut starts = Vec::new();
    for k in 1..=max_words {
        starts.push(total);
        total += per.pow(k);
    }
    (total, move |mut i: u64| {
        let mut k = 1u32;
        for (j, s) in starts.iter().enumerate() {
            if i >= *s {
                k = j as u32 + 1;
            }
        }
        i -= starts[(k - 1) as usize];
        let mut b = Vec::with_capacity(4 * k as usize);
        for _ in 0..k {
            let w = i % per;
            i /= per;
            let lf = CH_LF[(w % CH_LF.len() as u64) as usize];
            let pt = CH_PT[(w / CH_LF.len() as u64) as usize];
            b.extend_from_slice(&[0x80, pt, (lf >> 8) as u8, lf as u8]);
        }
        CompoundCase { bytes: Bytes(b), extra: 2 }
    })
}

pub fn c11(tier: Tier) -> Check {
    let (n, at) = chain_sweep(tier.pick(4, 5));
    Check {
        property: "C11",
        rule: "cases = (concatenation of 1..=6 tiles: reference images, framed, mutated, random; optional garbage / over-long / zero-length tail or cut; 0..=5 next() calls after the expected end) \
               + sweep of all chains of <= 4 (quick) / 5 (thorough) words with per-word length field in {0,1,2,3,5,0xffff} and PT in {200,203,99}; \
               oracle: Compound::parse accepts <=> the reference tiling exists; call i yields what Packet::parse returns for tile i (Debug for Ok, == for Err) until the first Err inclusive, then None on every later call; \
               non-trivial = accepted with >= 2 tiles, or an erroring tile that is not last",
        assumptions: vec!["Packet has no PartialEq: Ok items are compared through their Debug rendering, which prints the whole underlying slice"],
        legs: vec![
            Box::new(RandomLeg { name: "generated-datagrams", cases: tier.pick(360_000, 3_000_000), make: Box::new(compound_case), oracle: c11_oracle }),
            Box::new(SweepLeg { name: "length-chains", n, at: Box::new(at), oracle: c11_oracle, exhaustive: true }),
            Box::new(ListLeg { name: "datagrams-beyond-64KiB", cases: big_tilings(), oracle: c11_big_oracle }),
        ],
    }
}

// ---------------------------------------------------------------------------------------------
// C12
// ---------------------------------------------------------------------------------------------

pub(crate) fn c12_oracle(c: &Bytes, st: &mut Stats) -> Verdict {
    let b = &c.0[..];
    if b.len() < 4 {
        st.label("shorter than a header (outside the domain)");
        return Ok(());
    }
    let generic = no_panic("Packet::parse", || Packet::parse(b))?;
    let variant = match &generic {
        Ok(Packet::App(_)) => "App",
        Ok(Packet::Bye(_)) => "Bye",
        Ok(Packet::Rr(_)) => "ReceiverReport",
        Ok(Packet::Sdes(_)) => "Sdes",
        Ok(Packet::Sr(_)) => "SenderReport",
        Ok(Packet::TransportFeedback(_)) => "TransportFeedback",
        Ok(Packet::PayloadFeedback(_)) => "PayloadFeedback",
        Ok(Packet::Unknown(_)) => "Unknown",
        Err(_) => "Err",
    };
    if generic.is_ok() {
        st.nontrivial();
    }
    st.label(&format!("generic:{variant}"));
    // dispatch: outcome identical to the typed parser named by the type byte
    macro_rules! dispatch {
        ($t:ty, $v:ident, $name:expr) => {{
            let typed = no_panic(concat!(stringify!($t), "::parse"), || <$t>::parse(b))?;
            match (&generic, &typed) {
                (Err(g), Err(t)) => ensure!(g == t, "C12:dispatch:error-differs", "type {}: Packet::parse = Err({g:?}), {} = Err({t:?}); input {}", b[1], $name, hex(b)),
                (Ok(Packet::$v(g)), Ok(t)) => ensure!(g == t, "C12:dispatch:value-differs", "type {}: {g:?} vs {t:?}", b[1]),
                (g, t) => fail!("C12:dispatch:outcome-differs", "type {}: Packet::parse = {g:?} but {}::parse = {t:?}; input {}", b[1], $name, hex(b)),
            }
        }};
    }
    match b[1] {
        200 => dispatch!(SenderReport, Sr, "SenderReport"),
        201 => dispatch!(ReceiverReport, Rr, "ReceiverReport"),
        202 => dispatch!(Sdes, Sdes, "Sdes"),
        203 => dispatch!(Bye, Bye, "Bye"),
        204 => dispatch!(App, App, "App"),
        205 => dispatch!(TransportFeedback, TransportFeedback, "TransportFeedback"),
        206 => dispatch!(PayloadFeedback, PayloadFeedback, "PayloadFeedback"),
        _ => {
            let typed = no_panic("Unknown::parse", || Unknown::parse(b))?;
            match (&generic, &typed) {
                (Err(g), Err(t)) => ensure!(g == t, "C12:dispatch:error-differs", "unrecognised type {}: Err({g:?}) vs Unknown::parse Err({t:?})", b[1]),
                (Ok(Packet::Unknown(u)), Ok(_)) => {
                    let d = no_panic("Unknown::data", || u.data())?;
                    ensure!(d.as_ptr() == b.as_ptr() && d.len() == b.len(), "C12:unknown:input-not-exposed-unchanged", "Unknown::data() is not the input slice; input {}", hex(b));
                }
                (g, t) => fail!("C12:dispatch:outcome-differs", "unrecognised type {}: Packet::parse = {g:?} but Unknown::parse = {t:?}", b[1]),
            }
        }
    }
    // conversions
    if let Ok(p) = &generic {
        macro_rules! conv {
            ($t:ty, $name:expr) => {{
                st.label(&format!("cell:{variant}->{}", $name));
                let direct = no_panic(concat!(stringify!($t), "::parse"), || <$t>::parse(b))?;
                let want: Result<$t, RtcpParseError> = if variant == $name {
                    direct
                } else if variant == "Unknown" {
                    direct
                } else {
                    Err(RtcpParseError::PacketTypeMismatch { actual: b[1], requested: <$t>::PACKET_TYPE })
                };
                let a = no_panic("Packet::try_as", || p.try_as::<$t>())?;
                ensure!(a == want, format!("C12:try_as:{variant}->{}", $name), "try_as = {a:?}, want {want:?}; input {}", hex(b));
                let r = no_panic("TryFrom<&Packet>", || <$t>::try_from(p))?;
                ensure!(r == want, format!("C12:TryFrom<&Packet>:{variant}->{}", $name), "try_from(&packet) = {r:?}, want {want:?}; input {}", hex(b));
                let v = no_panic("TryFrom<Packet>", || <$t>::try_from(Packet::parse(b).unwrap()))?;
                ensure!(v == want, format!("C12:TryFrom<Packet>:{variant}->{}", $name), "try_from(packet) = {v:?}, want {want:?}; input {}", hex(b));
                if let Ok(x) = v {
                    // From<T> for Packet puts the value back into its own variant
                    let back: Packet = x.into();
                    let again = no_panic("TryFrom<Packet>", || <$t>::try_from(back))?;
                    ensure!(again == want, format!("C12:From<T>-for-Packet:{}", $name), "round trip through Packet::from changed the value: {again:?}");
                }
            }};
        }
        conv!(SenderReport, "SenderReport");
        conv!(ReceiverReport, "ReceiverReport");
        conv!(Sdes, "Sdes");
        conv!(Bye, "Bye");
        conv!(App, "App");
        conv!(TransportFeedback, "TransportFeedback");
        conv!(PayloadFeedback, "PayloadFeedback");
    }
    // an unknown packet converts to exactly what the typed parser returns on the same bytes
    let u = no_panic("Unknown::parse", || Unknown::parse(b))?;
    if let Ok(u) = &u {
        macro_rules! uconv {
            ($t:ty, $name:expr) => {{
                st.label(&format!("cell:Unknown::parse->{}", $name));
                let want = no_panic(concat!(stringify!($t), "::parse"), || <$t>::parse(b))?;
                let a = no_panic("Unknown::try_as", || u.try_as::<$t>())?;
                ensure!(a == want, format!("C12:Unknown::try_as->{}", $name), "try_as = {a:?}, typed parser {want:?}; input {}", hex(b));
                let r = no_panic("TryFrom<&Unknown>", || <$t>::try_from(u))?;
                ensure!(r == want, format!("C12:TryFrom<&Unknown>->{}", $name), "try_from(&unknown) = {r:?}, typed parser {want:?}");
                let v = no_panic("TryFrom<Unknown>", || <$t>::try_from(Unknown::parse(b).unwrap()))?;
                ensure!(v == want, format!("C12:TryFrom<Unknown>->{}", $name), "try_from(unknown) = {v:?}, typed parser {want:?}");
                // the same unknown packet held in the generic enum (its public `Unknown` variant), whatever its type byte
                let gp = Packet::Unknown(Unknown::parse(b).unwrap());
                let a = no_panic("Packet::Unknown(..).try_as", || gp.try_as::<$t>())?;
                ensure!(a == want, format!("C12:Packet::Unknown::try_as->{}", $name), "Packet::Unknown(u).try_as = {a:?}, typed parser {want:?}; input {}", hex(b));
                let r = no_panic("TryFrom<&Packet::Unknown>", || <$t>::try_from(&gp))?;
                ensure!(r == want, format!("C12:TryFrom<&Packet::Unknown>->{}", $name), "try_from(&Packet::Unknown(u)) = {r:?}, typed parser {want:?}; input {}", hex(b));
                let v = no_panic("TryFrom<Packet::Unknown>", || <$t>::try_from(gp))?;
                ensure!(v == want, format!("C12:TryFrom<Packet::Unknown>->{}", $name), "try_from(Packet::Unknown(u)) = {v:?}, typed parser {want:?}; input {}", hex(b));
            }};
        }
        uconv!(SenderReport, "SenderReport");
        uconv!(ReceiverReport, "ReceiverReport");
        uconv!(Sdes, "Sdes");
        uconv!(Bye, "Bye");
        uconv!(App, "App");
        uconv!(TransportFeedback, "TransportFeedback");
        uconv!(PayloadFeedback, "PayloadFeedback");
    }
    Ok(())
}

pub fn c12(tier: Tier) -> Check {
    let sweep = std::sync::Arc::new(HeaderSweep::new(Tier::Quick));
    let n = sweep.n();
    Check {
        property: "C12",
        rule: "cases = byte strings of at least header size (generated mixture + header-space sweep); oracle: Packet::parse vs the typed parser named by the type byte (same Err, or Ok of that variant holding an equal value; \
               unrecognised types: Unknown whose data() is the input slice); conversion matrix 8 source variants x 7 targets x {try_as, TryFrom<&Packet>, TryFrom<Packet>}: matching variant -> the parsed value, other known variant -> \
               PacketTypeMismatch{actual: type byte, requested: target type}, unknown -> exactly T::parse(bytes); Unknown::parse x 7 targets x {try_as, TryFrom<&Unknown>, TryFrom<Unknown>} == T::parse(bytes); \
               the class histogram lists the matrix cells hit; non-trivial = Packet::parse returned Ok",
        assumptions: vec![],
        legs: vec![
            Box::new(RandomLeg { name: "generated-strings", cases: tier.pick(450_000, 4_000_000), make: Box::new(gen::parser_input), oracle: c12_oracle }),
            Box::new(RandomLeg { name: "valid-images", cases: tier.pick(120_000, 800_000), make: Box::new(|| gen::valid_image().prop_map(Bytes).boxed()), oracle: c12_oracle }),
            Box::new(SweepLeg { name: "header-space", n, at: Box::new(move |i| sweep.at(i)), oracle: c12_oracle, exhaustive: true }),
            // the quick selection of length fields in both tiers (x 10 variants x 8 packet types): the conversion
            // matrix parses every image some forty times
            len_leg(Tier::Quick, c12_len_oracle),
        ],
    }
}




