//! C02 (SR/RR), C03 (SDES), C04 (BYE/APP), C05 (feedback + FCI): build -> write_into a garbage
//! prefilled exact buffer -> typed parse -> every accessor equals the configuration.

use super::common::*;
use crate::drive::*;
use crate::model::*;
use crate::run::*;
use crate::{ensure, fail, gen};
use proptest::prelude::*;
use serde_json::Value;

/// the shared round-trip oracle; `prop` only prefixes signatures
fn roundtrip(prop: &str, c: &BuildCase) -> Verdict {
    let name = c.spec.long_name();
    let bytes = build_valid(&c.spec, c.how, prop)?;
    let observed = observe_packet(&bytes).map_err(|f| Failure::new(format!("{prop}:{name}:{}", f.signature), f.detail))?;
    if let Some(e) = observed.get("error") {
        fail!(format!("{prop}:{name}:parser-rejects-built-packet"), "the matching parser rejects the builder's bytes with {e}; bytes {}", hex(&bytes));
    }
    let mut expected = expected_observation(&c.spec);
    let mut observed = observed;
    // a reason that was set to the empty string: "the same reason bytes" are no bytes, whether the view
    // reports them as absent or as an empty text (only a reason that was never set has to be absent)
    if let PacketSpec::Bye(b) = &c.spec {
        if b.reason.as_deref() == Some("") && observed.get("reason") == Some(&Value::String(String::new())) {
            expected["reason"] = Value::String(String::new());
        }
    }
    // the FCI is compared after everything else so that the known finding about empty SLI/FIR lists
    // cannot hide a difference elsewhere in the same packet
    let (efci, ofci) = match (&mut expected, &mut observed) {
        (Value::Object(e), Value::Object(o)) => (e.remove("fci"), o.remove("fci")),
        _ => (None, None),
    };
    if let Some((short, detail)) = diff(&expected, &observed) {
        fail!(format!("{prop}:{name}:{short}"), "{detail}; bytes {}", hex(&bytes));
    }
    if let (Some(e), Some(o)) = (efci, ofci) {
        if let Some((short, detail)) = diff(&e, &o) {
            if is_empty_sli_or_fir(&c.spec) && o.get("error").is_some() {
                fail!(format!("{prop}:{name}:empty-list:parse_fci-rejects"), "the builder accepts an empty list but parse_fci of the result gives {o}; bytes {}", hex(&bytes));
            }
            fail!(format!("{prop}:{name}:.fci{short}"), "fci{detail}; bytes {}", hex(&bytes));
        }
    }
    Ok(())
}

fn labels(c: &BuildCase, st: &mut Stats) {
    st.label(&c.spec.long_name());
    st.label_if(any_padding(&c.spec), "padded");
    st.label_if(c.how.wrap, "how:PacketBuilder-wrapped");
    st.label_if(c.how.single_compound, "how:single-member-compound");
}

fn case_of(spec: BoxedStrategy<PacketSpec>) -> BoxedStrategy<BuildCase> {
    (spec, gen::how(), any::<u64>()).prop_map(|(spec, how, salt)| BuildCase { spec, how, salt }).boxed()
}

fn plain(spec: PacketSpec) -> BuildCase {
    BuildCase { spec, how: How::default(), salt: 0 }
}

// ---------------------------------------------------------------------------------------------
// C02
// ---------------------------------------------------------------------------------------------

pub(crate) fn c02_oracle(c: &BuildCase, st: &mut Stats) -> Verdict {
    labels(c, st);
    let blocks = match &c.spec {
        PacketSpec::Sr(s) => &s.blocks,
        PacketSpec::Rr(s) => &s.blocks,
        _ => return Ok(()),
    };
    if !blocks.is_empty() {
        st.nontrivial();
    }
    st.label_if(blocks.len() == 31, "31 blocks");
    st.label_if(blocks.iter().any(|b| b.cumulative_lost >> 16 != 0 && b.fraction_lost != 0), "cumulative_lost top byte != 0 next to fraction_lost != 0");
    roundtrip("C02", c)?;
    // "the same report blocks in the same order" however the parsed view's iterator is driven
    // (count, last, nth, skip, step_by, a partly consumed iterator), not only through a plain loop
    if !blocks.is_empty() {
        use rtcp_types::prelude::*;
        type F = (u32, u8, u32, u32, u32, u32, u32);
        let want: Vec<F> = blocks.iter().map(|b| (b.ssrc, b.fraction_lost, b.cumulative_lost, b.ext_seq, b.jitter, b.lsr, b.dlsr)).collect();
        let proj = |rb: rtcp_types::ReportBlock| -> F {
            (
                rb.ssrc(),
                rb.fraction_lost(),
                rb.cumulative_lost(),
                rb.extended_sequence_number(),
                rb.interarrival_jitter(),
                rb.last_sender_report_timestamp(),
                rb.delay_since_last_sender_report_timestamp(),
            )
        };
        let bytes = build_valid(&c.spec, c.how, "C02")?;
        let v = no_panic("report_blocks iterator protocol", || match &c.spec {
            PacketSpec::Sr(_) => match rtcp_types::SenderReport::parse(&bytes) {
                Ok(p) => iter_protocol("SenderReport::report_blocks", "C02", || p.report_blocks(), proj, &want, c.salt, false),
                Err(_) => Ok(()),
            },
            _ => match rtcp_types::ReceiverReport::parse(&bytes) {
                Ok(p) => iter_protocol("ReceiverReport::report_blocks", "C02", || p.report_blocks(), proj, &want, c.salt, false),
                Err(_) => Ok(()),
            },
        })
        .map_err(|f| Failure::new(format!("C02:{}", f.signature), f.detail))?;
        v?;
    }
    Ok(())
}

fn field_pattern(k: u64) -> u32 {
    [0u32, 0xffff_ffff, 0x0102_0304, 0x8000_0001, 0x00ff_ff00, 0xa5a5_5a5a][(k % 6) as usize]
}

pub fn c02(tier: Tier) -> Check {
    Check {
        property: "C02",
        rule: "cases = representable SR / RR configurations (full integer ranges, boundary-biased; 0..=31 blocks; legal paddings) x construction path; sweep: blocks 0..=31 x padding {0,4,..,252}; \
               oracle: the typed parser accepts the builder's bytes and every accessor (count, padding, SSRC, NTP, RTP, counts, each block's 7 fields in order) equals the configuration; \
               non-trivial = >= 1 report block",
        assumptions: vec![],
        legs: vec![
            Box::new(RandomLeg {
                name: "random-sr-rr",
                cases: tier.pick(480_000, 6_000_000),
                make: Box::new(|| case_of(prop_oneof![gen::sr_spec(false).prop_map(PacketSpec::Sr), gen::rr_spec(false).prop_map(PacketSpec::Rr)].boxed())),
                oracle: c02_oracle,
            }),
            Box::new(SweepLeg {
                name: "blocks-x-padding",
                n: 32 * 64 * 2,
                at: Box::new(|i| {
                    let nb = (i % 32) as usize;
                    let padding = (((i / 32) % 64) * 4) as u8;
                    let blocks: Vec<RbSpec> = (0..nb as u64)
                        .map(|k| RbSpec {
                            ssrc: field_pattern(i + k),
                            fraction_lost: (255 - k) as u8,
                            cumulative_lost: field_pattern(i + k + 1) & 0x00ff_ffff,
                            ext_seq: field_pattern(i + k + 2),
                            jitter: field_pattern(i + k + 3),
                            lsr: field_pattern(i + k + 4),
                            dlsr: field_pattern(i + k + 5),
                        })
                        .collect();
                    if i / (32 * 64) == 0 {
                        plain(PacketSpec::Sr(SrSpec {
                            ssrc: field_pattern(i + 1),
                            ntp: (field_pattern(i) as u64) << 32 | field_pattern(i + 3) as u64,
                            rtp: field_pattern(i + 2),
                            packet_count: field_pattern(i + 4),
                            octet_count: field_pattern(i + 5),
                            blocks,
                            padding,
                        }))
                    } else {
                        plain(PacketSpec::Rr(RrSpec { ssrc: field_pattern(i), blocks, padding }))
                    }
                }),
                oracle: c02_oracle,
                exhaustive: true,
            }),
        ],
    }
}

// ---------------------------------------------------------------------------------------------
// C03
// ---------------------------------------------------------------------------------------------

pub(crate) fn c03_oracle(c: &BuildCase, st: &mut Stats) -> Verdict {
    labels(c, st);
    let s = match &c.spec {
        PacketSpec::Sdes(s) => s,
        _ => return Ok(()),
    };
    if s.chunks.iter().any(|c| !c.items.is_empty()) {
        st.nontrivial();
    }
    st.label_if(s.chunks.len() == 31, "31 chunks");
    st.label_if(s.chunks.iter().skip(1).any(|c| c.ssrc >> 24 == 0), "leading-zero SSRC in a non-first chunk");
    st.label_if(s.chunks.iter().any(|c| c.ssrc == 0), "SSRC 0");
    st.label_if(s.chunks.iter().any(|c| c.items.iter().any(|i| i.ty == 8)), "has PRIV item");
    if let Some(last) = s.chunks.last() {
        if let Some(it) = last.items.last() {
            let l = 2 + it.value.len() + if it.ty == 8 { 1 + it.prefix.len() } else { 0 };
            st.label_if(l < 4, "final item shorter than 4 bytes");
        }
    }
    roundtrip("C03", c)
}

/// sweep (i): one chunk with two items of value lengths (a, b) in 0..=11 x 0..=11, alone / followed by a chunk
/// whose SSRC has 0..=4 leading zero bytes, padding {0,4,8}
fn sdes_sweep1(i: u64) -> BuildCase {
    let a = (i % 12) as usize;
    let b = ((i / 12) % 12) as usize;
    let follow = (i / 144) % 6; // 0 = alone, 1..=5 = followed by SSRC with follow-1 leading zero bytes
    let padding = [0u8, 4, 8][((i / 864) % 3) as usize];
    let second_priv = (i / 2592) % 2 == 1;
    let mut chunks = vec![ChunkSpec {
        ssrc: 0x1122_3344,
        items: vec![
            ItemSpec { ty: 1, prefix: vec![], value: "a".repeat(a) },
            if second_priv { ItemSpec { ty: 8, prefix: vec![7; b / 2], value: "b".repeat(b - b / 2) } } else { ItemSpec { ty: 6, prefix: vec![], value: "b".repeat(b) } },
        ],
    }];
    if follow > 0 {
        let ssrc = [0xaabb_ccddu32, 0x00bb_ccdd, 0x0000_ccdd, 0x0000_00dd, 0x0000_0000][(follow - 1) as usize];
        // the follower has an item or not: a dimension of its own
        chunks.push(ChunkSpec { ssrc, items: if (i / 5184) % 2 == 0 { vec![] } else { vec![ItemSpec { ty: 2, prefix: vec![], value: "z".into() }] } });
    }
    plain(PacketSpec::Sdes(SdesSpec { chunks, padding }))
}

/// sweep (ii): a single item of every length 0..=255 (plain) and PRIV with prefix lengths at the limit
fn sdes_sweep2(j: u64) -> BuildCase {
    // every length x {unpadded, 4 bytes of padding}
    let (i, padded) = (j / 2, j % 2 == 1);
    let item = if i < 256 {
        ItemSpec { ty: 3, prefix: vec![], value: "e".repeat(i as usize) }
    } else if i < 256 + 255 {
        let p = (i - 256) as usize;
        ItemSpec { ty: 8, prefix: vec![0x80; p], value: "v".repeat(254 - p) }
    } else {
        let p = (i - 511) as usize;
        ItemSpec { ty: 8, prefix: vec![0; p], value: String::new() }
    };
    plain(PacketSpec::Sdes(SdesSpec { chunks: vec![ChunkSpec { ssrc: 9, items: vec![item] }], padding: if padded { 4 } else { 0 } }))
}

/// round trips far above the sizes the random generators draw (a 16-bit byte count anywhere in a write path or
/// an accessor shows only beyond 64 KiB)
fn large_sdes_cases() -> Vec<BuildCase> {
    let item = |ty: u8, n: usize| ItemSpec { ty, prefix: if ty == 8 { vec![0x5a; 20] } else { vec![] }, value: "L".repeat(n) };
    let specs = vec![
        // one chunk beyond 64 KiB
        SdesSpec { chunks: vec![ChunkSpec { ssrc: 0x00ab_cdef, items: (0..260).map(|k| item(1 + (k % 7) as u8, 250 + k % 6)).collect() }], padding: 0 },
        // 31 chunks of 30 items: ~190 KiB, padded
        SdesSpec { chunks: (0..31).map(|c| ChunkSpec { ssrc: c, items: (0..30).map(|k| item(if k % 9 == 0 { 8 } else { 2 }, 190 + (k + c as usize) % 11)).collect() }).collect(), padding: 8 },
        // a thousand short items
        SdesSpec { chunks: vec![ChunkSpec { ssrc: 1, items: (0..1000).map(|k| item(1 + (k % 8) as u8, k % 5)).collect() }, ChunkSpec { ssrc: 0, items: vec![] }], padding: 0 },
    ];
    specs.into_iter().enumerate().map(|(i, s)| BuildCase { spec: PacketSpec::Sdes(s), how: How { owned: i % 2 == 1, ..How::default() }, salt: i as u64 }).collect()
}

fn large_bye_app_cases() -> Vec<BuildCase> {
    let mut v = Vec::new();
    for (i, words) in [16_381usize, 16_384, 17_500, 65_533].into_iter().enumerate() {
        // 65 533 words of payload = the largest APP there is (65 536 words in all)
        for padding in [0u8, 8] {
            if words == 65_533 && padding != 0 {
                continue;
            }
            let data: Vec<u8> = (0..4 * words).map(|k| (k as u32).wrapping_mul(2654435761).to_be_bytes()[0]).collect();
            v.push(BuildCase { spec: PacketSpec::App(AppSpec { ssrc: 0xfeed_0000 + i as u32, subtype: 31, name: "big!".into(), data, padding }), how: How { wrap: i % 2 == 1, ..How::default() }, salt: i as u64 });
        }
    }
    v.push(plain(PacketSpec::Bye(ByeSpec { sources: (0..31).map(|k| 0xffff_ff00 + k).collect(), reason: Some("r".repeat(255)), padding: 252 })));
    v
}

fn large_feedback_cases() -> Vec<BuildCase> {
    let mut v = Vec::new();
    let fb = |kind: FbKind, fci: FciSpec, padding: u8| PacketSpec::Fb(FbSpec { kind, sender: 0x0102_0304, media: 0x00ff_00ff, fci, padding });
    // the full set of sequence numbers, a sparse 40 000, a set that needs a word per value
    v.push(fb(FbKind::Transport, FciSpec::Nack((0..=65535u16).collect()), 0));
    v.push(fb(FbKind::Transport, FciSpec::Nack((0..40_000u32).map(|k| (k.wrapping_mul(40_503) % 65_536) as u16).collect()), 8));
    v.push(fb(FbKind::Transport, FciSpec::Nack((0..3_000u16).map(|k| k * 18).collect()), 0));
    // more than 16 384 SLI entries, FIR beyond 8 192 entries, RPSI beyond 64 KiB
    v.push(fb(FbKind::Payload, FciSpec::Sli((0..20_000u32).map(|k| ((k % 8192) as u16, (k * 7 % 8192) as u16, (k % 64) as u8)).collect()), 0));
    v.push(fb(FbKind::Payload, FciSpec::Fir((0..10_000u32).map(|k| (k.wrapping_mul(0x9e37_79b1), k as u8)).collect()), 4));
    v.push(fb(FbKind::Payload, FciSpec::Rpsi { pt: 127, data: (0..100_001u32).map(|k| (k % 251) as u8 | 1).collect(), overrun: 3 }, 0));
    v.push(fb(FbKind::Payload, FciSpec::Rpsi { pt: 1, data: (0..65_534u32).map(|k| (k % 13) as u8).collect(), overrun: 8 }, 252));
    v.into_iter().enumerate().map(|(i, spec)| BuildCase { spec, how: How { fb_owned: i % 2 == 0, ..How::default() }, salt: i as u64 }).collect()
}

pub fn c03(tier: Tier) -> Check {
    Check {
        property: "C03",
        rule: "cases = representable SDES configurations (0..=31 chunks, SSRCs with leading zero bytes and 0, item types != 0, UTF-8 values of every length 0..=255 built to exact byte lengths, \
               PRIV with any prefix, non-PRIV items that carry an ignored prefix, legal paddings); sweeps: two items of lengths 0..=11 x 0..=11 alone / followed by a chunk whose SSRC has 0..=4 \
               leading zero bytes x padding {0,4,8}; single item of every length; oracle: Sdes::parse accepts, chunks/items identical in order, count, SSRC, type, value bytes, PRIV prefix bytes, padding; \
               non-trivial = >= 1 item",
        assumptions: vec![],
        legs: vec![
            Box::new(RandomLeg { name: "random-sdes", cases: tier.pick(320_000, 4_000_000), make: Box::new(|| case_of(gen::sdes_spec(false).prop_map(PacketSpec::Sdes).boxed())), oracle: c03_oracle }),
            Box::new(SweepLeg { name: "two-items-x-following-ssrc-x-padding", n: 12 * 12 * 6 * 3 * 2 * 2, at: Box::new(sdes_sweep1), oracle: c03_oracle, exhaustive: true }),
            Box::new(ListLeg { name: "large-packets", cases: large_sdes_cases(), oracle: c03_oracle }),
            Box::new(SweepLeg { name: "single-item-every-length", n: 2 * (256 + 255 + 255), at: Box::new(sdes_sweep2), oracle: c03_oracle, exhaustive: true }),
        ],
    }
}

// ---------------------------------------------------------------------------------------------
// C04
// ---------------------------------------------------------------------------------------------

pub(crate) fn c04_oracle(c: &BuildCase, st: &mut Stats) -> Verdict {
    labels(c, st);
    match &c.spec {
        PacketSpec::Bye(s) => {
            let has_reason = s.reason.as_ref().map(|r| !r.is_empty()).unwrap_or(false);
            if has_reason || !s.sources.is_empty() {
                st.nontrivial();
            }
            if let Some(r) = &s.reason {
                st.label_if(!r.is_empty() && (1 + r.len()) % 4 != 0 && s.padding != 0, "reason not 32-bit aligned AND padded");
                st.label_if(r.is_empty(), "reason set to the empty string");
            }
        }
        PacketSpec::App(s) => {
            if !s.data.is_empty() || s.padding != 0 {
                st.nontrivial();
            }
            st.label(&format!("app-name-len:{}", s.name.len()));
        }
        _ => return Ok(()),
    }
    roundtrip("C04", c)?;
    // get_name_string is compared only for NUL-free names
    if let PacketSpec::App(s) = &c.spec {
        if !s.name.contains('\0') {
            use rtcp_types::prelude::*;
            let bytes = build_valid(&c.spec, c.how, "C04")?;
            let got = no_panic("App::get_name_string", || rtcp_types::App::parse(&bytes).ok().map(|a| a.get_name_string()))?;
            match got {
                // the name field is zero-filled to 4 bytes: the string may or may not carry the fill
                Some(Ok(n)) => ensure!(n.trim_end_matches('\0') == s.name, "C04:APP:get_name_string", "name {:?} read back as {:?}", s.name, n),
                other => fail!("C04:APP:get_name_string", "get_name_string = {other:?} for name {:?}", s.name),
            }
        }
    }
    if let PacketSpec::Bye(s) = &c.spec {
        if let Some(r) = &s.reason {
            if !r.is_empty() {
                use rtcp_types::prelude::*;
                let bytes = build_valid(&c.spec, c.how, "C04")?;
                let got = no_panic("Bye::get_reason_string", || rtcp_types::Bye::parse(&bytes).ok().and_then(|b| b.get_reason_string()))?;
                match got {
                    Some(Ok(n)) => ensure!(n == *r, "C04:BYE:get_reason_string", "reason {:?} read back as {:?}", r, n),
                    other => fail!("C04:BYE:get_reason_string", "get_reason_string = {other:?} for reason {:?}", r),
                }
            }
        }
    }
    Ok(())
}

pub fn c04(tier: Tier) -> Check {
    Check {
        property: "C04",
        rule: "cases = representable BYE (0..=31 sources, reason unset / empty / UTF-8 of every byte length 1..=255, legal paddings) and APP (any SSRC, subtype 0..=31, ASCII names of 0..=4 bytes incl. NUL, \
               payload 0..=64 words rarely ~1000, legal paddings) x construction path; sweep (always run): reason length 0..=255 x padding {0,4,8,252} x sources {0,1,31}; \
               oracle: matching parser accepts; sources in order; reason None when empty/unset else exactly the bytes; subtype, zero-filled name, payload, padding; non-trivial = BYE with reason or source, APP with payload or padding",
        assumptions: vec!["get_name_string is compared only for NUL-free names"],
        legs: vec![
            Box::new(ListLeg { name: "large-packets", cases: large_bye_app_cases(), oracle: c04_oracle }),
            Box::new(RandomLeg {
                name: "random-bye-app",
                cases: tier.pick(480_000, 6_000_000),
                make: Box::new(|| case_of(prop_oneof![gen::bye_spec(false).prop_map(PacketSpec::Bye), gen::app_spec(false).prop_map(PacketSpec::App)].boxed())),
                oracle: c04_oracle,
            }),
            Box::new(SweepLeg {
                name: "bye-reason-x-padding-x-sources",
                n: 256 * 4 * 3,
                at: Box::new(|i| {
                    let reason_len = (i % 256) as usize;
                    let padding = [0u8, 4, 8, 252][((i / 256) % 4) as usize];
                    let nsrc = [0u32, 1, 31][(i / 1024) as usize];
                    plain(PacketSpec::Bye(ByeSpec {
                        sources: (0..nsrc).map(|k| k.wrapping_mul(0x0101_0101)).collect(),
                        reason: if reason_len == 0 { None } else { Some("r".repeat(reason_len)) },
                        padding,
                    }))
                }),
                oracle: c04_oracle,
                exhaustive: true,
            }),
            Box::new(SweepLeg {
                name: "app-name-x-subtype-x-payload-x-padding",
                n: 5 * 32 * 4 * 3,
                at: Box::new(|i| {
                    plain(PacketSpec::App(AppSpec {
                        ssrc: 0x00ff_00ff,
                        name: "Wxyz"[..(i % 5) as usize].into(),
                        subtype: ((i / 5) % 32) as u8,
                        data: vec![0xd7; 4 * ((i / 160) % 4) as usize],
                        padding: [0u8, 4, 252][(i / 640) as usize],
                    }))
                }),
                oracle: c04_oracle,
                exhaustive: true,
            }),
        ],
    }
}

// ---------------------------------------------------------------------------------------------
// C05
// ---------------------------------------------------------------------------------------------

pub(crate) fn c05_oracle(c: &BuildCase, st: &mut Stats) -> Verdict {
    labels(c, st);
    let s = match &c.spec {
        PacketSpec::Fb(s) => s,
        _ => return Ok(()),
    };
    st.label_if(c.how.fb_owned, "how:builder_owned");
    if matches!(s.fci, FciSpec::Sli(_)) {
        st.label(match sli_view() {
            SliView::Named => "SLI entries read by field name from the derived Debug",
            SliView::Fields(_) => "SLI entries read through a calibrated Debug layout",
            SliView::Opaque => "SLI entries compared through an opaque Debug text",
        });
    }
    let has_entries = match &s.fci {
        FciSpec::Nack(v) => !v.is_empty(),
        FciSpec::Pli => false,
        FciSpec::Sli(v) => !v.is_empty(),
        FciSpec::Rpsi { data, .. } => !data.is_empty(),
        FciSpec::Fir(v) => !v.is_empty(),
    };
    if has_entries || s.padding != 0 {
        st.nontrivial();
    }
    if let FciSpec::Nack(v) = &s.fci {
        let set = s.fci.nack_set().unwrap();
        st.label_if(set.contains(&0) || set.contains(&65535), "nack touches 0 or 65535");
        st.label_if(v.len() != set.len(), "nack duplicate adds");
        let sv: Vec<u16> = set.iter().copied().collect();
        st.label_if(sv.windows(2).any(|w| w[1] - w[0] == 16 || w[1] - w[0] == 17), "nack gap of 16/17 (window boundary)");
    }
    if let FciSpec::Rpsi { data, overrun, .. } = &s.fci {
        st.label_if(*overrun == 8, "rpsi 8 ignored bits");
        st.label(&format!("rpsi len%4={}", data.len() % 4));
    }
    roundtrip("C05", c)?;
    // "decoding its feedback control information yields what was put in" however the entry iterator is
    // driven (count, last, nth, skip, step_by, fold, find, a partly consumed iterator), not only through a loop
    if has_entries && !matches!(s.fci, FciSpec::Rpsi { .. }) {
        let bytes = build_valid(&c.spec, c.how, "C05")?;
        let v = no_panic("FCI entries iterator protocol", || fci_iter_protocol(s, &bytes, c.salt)).map_err(|f| Failure::new(format!("C05:{}", f.signature), f.detail))?;
        v?;
    }
    Ok(())
}

fn fci_iter_protocol(s: &FbSpec, bytes: &[u8], salt: u64) -> Verdict {
    use rtcp_types::*;
    match (&s.fci, s.kind) {
        (FciSpec::Nack(_), FbKind::Transport) => {
            let want: Vec<u16> = s.fci.nack_set().unwrap().into_iter().collect();
            if let Ok(p) = TransportFeedback::parse(bytes) {
                if let Ok(n) = p.parse_fci::<Nack>() {
                    iter_protocol("Nack::entries", "C05", || n.entries(), |x| x, &want, salt, false)?;
                }
            }
        }
        (FciSpec::Fir(_), FbKind::Payload) => {
            if let Ok(p) = PayloadFeedback::parse(bytes) {
                if let Ok(f) = p.parse_fci::<Fir>() {
                    // the entry order is the writer's choice: the next() sequence (judged as a map by the round trip) is the reference
                    let want: Vec<(u32, u8)> = f.entries().take(40_000).map(|e| (e.ssrc(), e.sequence())).collect();
                    iter_protocol("Fir::entries", "C05", || f.entries(), |e| (e.ssrc(), e.sequence()), &want, salt, false)?;
                }
            }
        }
        (FciSpec::Sli(v), FbKind::Payload) => {
            if let Ok(p) = PayloadFeedback::parse(bytes) {
                if let Ok(f) = p.parse_fci::<Sli>() {
                    let want: Vec<serde_json::Value> = v.iter().map(|(a, n, p)| sli_expected(*a, *n, *p)).collect();
                    iter_protocol("Sli::lost_macroblocks", "C05", || f.lost_macroblocks(), |e| sli_observed(&format!("{e:?}")), &want, salt, false)?;
                }
            }
        }
        _ => {}
    }
    Ok(())
}

pub fn c05(tier: Tier) -> Check {
    Check {
        property: "C05",
        rule: "cases = feedback configurations with the legal kind for their FCI (NACK sets dense / sparse / straddling the 17-value window / touching 0 and 65535 / large / with duplicate adds; FIR maps with re-adds; \
               SLI lists within 13/13/6 bits; RPSI strings of every length 0..=40 rarely ~1000 x 0..=8 ignored bits; PLI), any SSRCs, legal paddings, builder(&fci) and builder_owned(fci); \
               sweeps: RPSI length 0..=16 x bits 0..=8 x padding {0,4}; NACK pairs {a, a+d}; oracle: packet parser accepts; sender/media SSRC, format, padding; parse_fci::<F>: NACK == the set ascending each once, \
               FIR == the map (no duplicate SSRC), SLI triples in order (via Debug), RPSI payload type and bit string compared as bits, PLI decodes; non-trivial = FCI with >= 1 entry/bit, or padding",
        assumptions: vec![
            "SLI entries are read through their derived Debug output, the only public view",
            "RPSI bit strings are compared as bits (8*len - ignored significant bits on both sides)",
        ],
        legs: vec![
            Box::new(ListLeg { name: "large-packets", cases: large_feedback_cases(), oracle: c05_oracle }),
            Box::new(RandomLeg { name: "random-feedback", cases: tier.pick(480_000, 6_000_000), make: Box::new(|| case_of(gen::fb_spec(false).prop_map(PacketSpec::Fb).boxed())), oracle: c05_oracle }),
            Box::new(SweepLeg {
                name: "rpsi-len-x-bits-x-padding",
                n: 17 * 9 * 2,
                at: Box::new(|i| {
                    let len = (i % 17) as usize;
                    let bits = ((i / 17) % 9) as u8;
                    BuildCase {
                        spec: PacketSpec::Fb(FbSpec {
                            kind: FbKind::Payload,
                            sender: 0xfeed_f00d,
                            media: 0x0000_0001,
                            fci: FciSpec::Rpsi { pt: (i % 128) as u8, data: (0..len).map(|k| 0xff ^ (k as u8) << 1).collect(), overrun: if len == 0 { 0 } else { bits } },
                            padding: if i / 153 == 1 { 4 } else { 0 },
                        }),
                        how: How { fb_owned: i % 2 == 1, ..How::default() },
                        salt: 0,
                    }
                }),
                oracle: c05_oracle,
                exhaustive: true,
            }),
            Box::new(SweepLeg {
                name: "nack-pairs",
                n: 9 * 41 * 2,
                at: Box::new(|i| {
                    let a = [0u16, 1, 100, 0x7ff0, 0x8000, 65535 - 40, 65535 - 17, 65535 - 16, 65535][(i % 9) as usize];
                    let d = ((i / 9) % 41) as u16;
                    let third = i / 369 == 1;
                    let mut v = vec![a, a.wrapping_add(d)];
                    if third {
                        v.push(a.wrapping_add(d).wrapping_add(17));
                    }
                    BuildCase {
                        spec: PacketSpec::Fb(FbSpec { kind: FbKind::Transport, sender: 1, media: 2, fci: FciSpec::Nack(v), padding: if i % 5 == 0 { 8 } else { 0 } }),
                        how: How { fb_owned: i % 2 == 1, ..How::default() },
                        salt: 0,
                    }
                }),
                oracle: c05_oracle,
                exhaustive: true,
            }),
            Box::new(ListLeg {
                name: "probe-empty-sli-fir",
                cases: vec![
                    plain(PacketSpec::Fb(FbSpec { kind: FbKind::Payload, sender: 1, media: 2, fci: FciSpec::Sli(vec![]), padding: 0 })),
                    plain(PacketSpec::Fb(FbSpec { kind: FbKind::Payload, sender: 1, media: 2, fci: FciSpec::Fir(vec![]), padding: 0 })),
                ],
                oracle: c05_oracle,
            }),
        ],
    }
}
