//! Case types and helpers shared by several oracles.

use crate::drive::How;
use crate::gen;
use crate::model::*;
use proptest::prelude::*;
use serde::{Deserialize, Serialize};

#[derive(Clone, Debug, PartialEq, Eq, Hash, Serialize, Deserialize)]
pub struct BuildCase {
    pub spec: PacketSpec,
    pub how: How,
    /// drives the choice of buffer lengths / slack where an oracle needs one
    pub salt: u64,
}

/// representable configurations of every builder kind: leaves, and compounds padded on the last
/// member only
pub fn valid_build_case() -> BoxedStrategy<BuildCase> {
    (prop_oneof![5 => gen::leaf_spec(false, true), 1 => gen::compound_spec(false, true)], gen::how(), any::<u64>())
        .prop_map(|(spec, how, salt)| BuildCase { spec, how, salt })
        .boxed()
}

/// possibly unrepresentable configurations (every limit from both sides, 0..=3 violations)
pub fn any_build_case() -> BoxedStrategy<BuildCase> {
    (
        prop_oneof![4 => gen::leaf_spec(true, true), 2 => gen::leaf_spec(false, true), 1 => gen::compound_spec(true, false), 1 => gen::compound_spec(false, false)],
        gen::how(),
        any::<u64>(),
    )
        .prop_map(|(spec, how, salt)| BuildCase { spec, how, salt })
        .boxed()
}

/// a leaf has "variable content" when something other than fixed-size fields decides its size
pub fn has_variable_content(p: &PacketSpec) -> bool {
    match p {
        PacketSpec::Sr(s) => !s.blocks.is_empty(),
        PacketSpec::Rr(s) => !s.blocks.is_empty(),
        PacketSpec::Sdes(s) => !s.chunks.is_empty(),
        PacketSpec::Bye(s) => !s.sources.is_empty() || s.reason.as_ref().map(|r| !r.is_empty()).unwrap_or(false),
        PacketSpec::App(s) => !s.data.is_empty(),
        PacketSpec::Fb(s) => match &s.fci {
            FciSpec::Nack(v) => !v.is_empty(),
            FciSpec::Pli => false,
            FciSpec::Sli(v) => !v.is_empty(),
            FciSpec::Rpsi { data, .. } => !data.is_empty(),
            FciSpec::Fir(v) => !v.is_empty(),
        },
        PacketSpec::Unknown(s) => !s.data.is_empty(),
        PacketSpec::Custom(s) => !s.tail.is_empty(),
        PacketSpec::Compound(v) => v.iter().any(has_variable_content) || v.len() >= 2,
    }
}

pub fn any_padding(p: &PacketSpec) -> bool {
    p.leaves().iter().any(|l| l.padding() != 0)
}

/// the known-finding classes that generators must keep out of the other legs (counted)
pub fn is_empty_sli_or_fir(p: &PacketSpec) -> bool {
    match p {
        PacketSpec::Fb(s) => match &s.fci {
            FciSpec::Sli(v) => v.is_empty(),
            FciSpec::Fir(v) => v.is_empty(),
            _ => false,
        },
        _ => false,
    }
}

pub fn region(off: usize, len: usize, padding: usize) -> &'static str {
    if off < 4 {
        "header"
    } else if padding > 0 && off >= len.saturating_sub(padding) {
        "padding-trailer"
    } else {
        "body"
    }
}
