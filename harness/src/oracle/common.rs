//! Case types and helpers shared by several oracles.

use crate::drive::How;
use crate::gen;
use crate::model::*;
use proptest::prelude::*;
use serde::{Deserialize, Serialize};

#[derive(Clone, Debug, PartialEq, Eq, Hash, Serialize, Deserialize)]
pub struct BuildCase {
    pub spec: PacketSpec,
    pub how: How,
    /// drives the choice of buffer lengths / slack where an oracle needs one
    pub salt: u64,
}

/// representable configurations of every builder kind: leaves, and compounds padded on the last
/// member only
pub fn valid_build_case() -> BoxedStrategy<BuildCase> {
    (prop_oneof![5 => gen::leaf_spec(false, true), 1 => gen::compound_spec(false, true)], gen::how(), any::<u64>())
        .prop_map(|(spec, how, salt)| BuildCase { spec, how, salt })
        .boxed()
}

/// possibly unrepresentable configurations (every limit from both sides, 0..=3 violations)
pub fn any_build_case() -> BoxedStrategy<BuildCase> {
    (
        prop_oneof![4 => gen::leaf_spec(true, true), 2 => gen::leaf_spec(false, true), 1 => gen::compound_spec(true, false), 1 => gen::compound_spec(false, false)],
        gen::how(),
        any::<u64>(),
    )
        .prop_map(|(spec, how, salt)| BuildCase { spec, how, salt })
        .boxed()
}

/// a leaf has "variable content" when something other than fixed-size fields decides its size
pub fn has_variable_content(p: &PacketSpec) -> bool {
    match p {
        PacketSpec::Sr(s) => !s.blocks.is_empty(),
        PacketSpec::Rr(s) => !s.blocks.is_empty(),
        PacketSpec::Sdes(s) => !s.chunks.is_empty(),
        PacketSpec::Bye(s) => !s.sources.is_empty() || s.reason.as_ref().map(|r| !r.is_empty()).unwrap_or(false),
        PacketSpec::App(s) => !s.data.is_empty(),
        PacketSpec::Fb(s) => match &s.fci {
            FciSpec::Nack(v) => !v.is_empty(),
            FciSpec::Pli => false,
            FciSpec::Sli(v) => !v.is_empty(),
            FciSpec::Rpsi { data, .. } => !data.is_empty(),
            FciSpec::Fir(v) => !v.is_empty(),
        },
        PacketSpec::Unknown(s) => !s.data.is_empty(),
        PacketSpec::Custom(s) => !s.tail.is_empty(),
        PacketSpec::Compound(v) => v.iter().any(has_variable_content) || v.len() >= 2,
    }
}

pub fn any_padding(p: &PacketSpec) -> bool {
    p.leaves().iter().any(|l| l.padding() != 0)
}

/// the known-finding classes that generators must keep out of the other legs (counted)
pub fn is_empty_sli_or_fir(p: &PacketSpec) -> bool {
    match p {
        PacketSpec::Fb(s) => match &s.fci {
            FciSpec::Sli(v) => v.is_empty(),
            FciSpec::Fir(v) => v.is_empty(),
            _ => false,
        },
        _ => false,
    }
}

pub fn region(off: usize, len: usize, padding: usize) -> &'static str {
    if off < 4 {
        "header"
    } else if padding > 0 && off >= len.saturating_sub(padding) {
        "padding-trailer"
    } else {
        "body"
    }
}

/// The standard `Iterator` protocol on a public iterator of the crate: every way of consuming it
/// (`count`, `last`, `nth`, `skip`, `step_by`, calls after the end) must agree with what
/// draining it with `next()` yields - an overridden provided method has to be observationally the
/// default one. `mk` makes a fresh iterator, `proj` projects an item to a comparable value,
/// `expected` is the `next()`-drain (already checked against the reference by the caller).
/// The caller wraps the call in a panic guard.
pub fn iter_protocol<I, T>(what: &str, prop: &str, mk: impl Fn() -> I, proj: impl Fn(I::Item) -> T, expected: &[T], salt: u64, fused: bool) -> crate::run::Verdict
where
    I: Iterator,
    T: PartialEq + std::fmt::Debug,
{
    use crate::ensure;
    let n = expected.len();
    if n > 4096 {
        return Ok(());
    }
    let sig = |m: &str| format!("{prop}:{what}:iterator-protocol:{m}");
    crate::run::step("iterator protocol");
    // size_hint is only a hint: it is called (it must return normally), not judged
    let _ = mk().size_hint();
    let c = mk().count();
    ensure!(c == n, sig("count"), "{what}: count() = {c} but next() yields {n} items");
    let l = mk().last().map(&proj);
    ensure!(l.as_ref() == expected.last(), sig("last"), "{what}: last() = {l:?}, the last item next() yields is {:?}", expected.last());
    let ks = [0usize, 1, 2, (salt as usize) % (n + 2), n.saturating_sub(1), n, n + 1];
    for &k in &ks {
        let mut it = mk();
        let got = it.nth(k).map(&proj);
        ensure!(got.as_ref() == expected.get(k), sig("nth"), "{what}: nth({k}) on a fresh iterator = {got:?}, item {k} of the next() sequence is {:?}", expected.get(k));
        // the iterator goes on from there
        let after = it.next().map(&proj);
        let want = if k < n { expected.get(k + 1) } else { None };
        ensure!(k >= n && !fused || after.as_ref() == want, sig("next-after-nth"), "{what}: next() after nth({k}) = {after:?}, want {want:?}");
    }
    // a partly consumed iterator
    let j = if n == 0 { 0 } else { 1 + (salt as usize >> 8) % n };
    let mut it = mk();
    for _ in 0..j {
        let _ = it.next();
    }
    let _ = it.size_hint();
    let rest = n - j.min(n);
    let c = it.count();
    ensure!(c == rest, sig("count-after-next"), "{what}: after {j} next() calls count() = {c} but {rest} items remain");
    let mut it = mk();
    for _ in 0..j {
        let _ = it.next();
    }
    let got = it.nth(1).map(&proj);
    ensure!(got.as_ref() == expected.get(j + 1), sig("nth-after-next"), "{what}: after {j} next() calls nth(1) = {got:?}, want {:?}", expected.get(j + 1));
    // adaptors built on nth / advance (bounded: an adaptor that never ends is a wrong answer, not a hang of the check)
    let k = (salt as usize >> 16) % (n + 2);
    let got: Vec<T> = mk().skip(k).take(n + 2).map(&proj).collect();
    ensure!(got.as_slice() == expected.get(k.min(n)..).unwrap_or(&[]), sig("skip"), "{what}: skip({k}) yields {} items, want {}", got.len(), n - k.min(n));
    let got: Vec<T> = mk().step_by(2).take(n + 2).map(&proj).collect();
    let want: Vec<&T> = expected.iter().step_by(2).collect();
    ensure!(got.iter().collect::<Vec<_>>() == want, sig("step_by"), "{what}: step_by(2) yields {got:?}, want {want:?}");
    // internal iteration: `fold` and what the standard library builds on it / on `try_fold`
    // (`for_each`, `collect`, `find`, `position`, `any`, `all`) visit the `next()` sequence, in order
    let got: Vec<T> = mk().fold(Vec::new(), |mut v, x| {
        if v.len() < n + 2 {
            v.push(proj(x));
        }
        v
    });
    ensure!(got.as_slice() == expected, sig("fold"), "{what}: fold() visits {} items ({got:?}), next() yields {n}", got.len());
    let mut got: Vec<T> = Vec::new();
    mk().for_each(|x| {
        if got.len() < n + 2 {
            got.push(proj(x))
        }
    });
    ensure!(got.as_slice() == expected, sig("for_each"), "{what}: for_each() visits {} items ({got:?}), next() yields {n}", got.len());
    let got: Vec<T> = mk().take(n + 2).collect::<Vec<_>>().into_iter().map(&proj).collect();
    ensure!(got.as_slice() == expected, sig("collect"), "{what}: collect() gives {} items, next() yields {n}", got.len());
    // short-circuiting searches stop at item k and the iterator goes on behind it
    let k = (salt as usize >> 24) % (n + 1);
    let mut seen = 0usize;
    let mut it = mk();
    let found = it
        .find(|_| {
            seen += 1;
            seen == k + 1
        })
        .map(&proj);
    ensure!(found.as_ref() == expected.get(k), sig("find"), "{what}: find(the item visited as number {k}) = {found:?}, item {k} of the next() sequence is {:?}", expected.get(k));
    if k < n {
        let after = it.next().map(&proj);
        ensure!(after.as_ref() == expected.get(k + 1), sig("next-after-find"), "{what}: next() after find() stopped at item {k} = {after:?}, want {:?}", expected.get(k + 1));
    }
    let mut seen = 0usize;
    let pos = mk().position(|_| {
        seen += 1;
        seen == k + 1
    });
    ensure!(pos == if k < n { Some(k) } else { None }, sig("position"), "{what}: position(the item visited as number {k}) = {pos:?} of {n} items");
    let mut seen = 0usize;
    let all = mk().all(|_| {
        seen += 1;
        seen <= n + 1
    });
    ensure!(all && seen == n, sig("all"), "{what}: all() visited {seen} items, next() yields {n}");
    let mut seen = 0usize;
    let any = mk().any(|_| {
        seen += 1;
        seen > n + 1
    });
    ensure!(!any && seen == n, sig("any"), "{what}: any() visited {seen} items, next() yields {n}");
    // `by_ref`: a prefix taken through a borrowed iterator, then the rest through the iterator itself
    let j2 = (salt as usize >> 32) % (n + 1);
    let mut it = mk();
    let mut got: Vec<T> = it.by_ref().take(j2).map(&proj).collect();
    got.extend(it.take(n + 2).map(&proj));
    ensure!(got.as_slice() == expected, sig("by_ref-prefix-then-rest"), "{what}: {j2} items through by_ref().take(), then the rest: {} items, next() yields {n}", got.len());
    // past the end it stays at the end
    let mut it = mk();
    let _ = it.nth(n);
    for _ in 0..if fused { 3 } else { 0 } {
        let x = it.next().map(&proj);
        ensure!(x.is_none(), sig("item-after-the-end"), "{what}: next() after the end = {x:?}");
    }
    Ok(())
}
