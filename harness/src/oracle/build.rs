//! Builder-side oracles: C06 (announced size == written size), C07 (RFC wire layout),
//! C14 (compound == concatenation), C16 (accept exactly the representable), C17 (define every
//! byte, touch nothing else).

use super::common::*;
use crate::drive::*;
use crate::model::*;
use crate::run::*;
use crate::{ensure, fail};

// ---------------------------------------------------------------------------------------------
// C07
// ---------------------------------------------------------------------------------------------

/// Compare the bytes a builder wrote for one leaf with the reference image, with the two
/// licences the property grants (FIR order, NACK encoding) and the BYE empty-reason latitude.
pub fn compare_leaf(spec: &PacketSpec, got: &[u8]) -> Result<(), (String, String)> {
    let exp = ref_encode(spec);
    let name = spec.long_name();
    // latitude: a BYE reason that was set to the empty string may be written as absent or as a zero
    // length octet + fill (both are RFC 3550 6.6 images); the second one is 4 bytes longer
    if let PacketSpec::Bye(b) = spec {
        if b.reason.as_deref() == Some("") && got == &ref_encode_bye_empty_reason_present(b)[..] {
            return Ok(());
        }
    }
    if got.len() != exp.len() {
        return Err((format!("{name}:length"), format!("image is {} bytes, RFC image is {} bytes; got {} want {}", got.len(), exp.len(), hex(got), hex(&exp))));
    }
    let pad = spec.padding() as usize;
    let first_diff = |a: &[u8], b: &[u8], base: usize| -> Option<usize> { a.iter().zip(b).position(|(x, y)| x != y).map(|i| i + base) };
    let mismatch = |off: usize| -> (String, String) {
        (
            format!("{name}:byte@{}", region(off, exp.len(), pad)),
            format!("offset {off}: wrote 0x{:02x}, RFC image has 0x{:02x}; got {} want {}", got[off], exp[off], hex(got), hex(&exp)),
        )
    };
    match spec {
        PacketSpec::Fb(FbSpec { fci: FciSpec::Nack(_), .. }) => {
            if let Some(o) = first_diff(&got[..12], &exp[..12], 0) {
                return Err(mismatch(o));
            }
            let end = got.len() - pad;
            if let Some(o) = first_diff(&got[end..], &exp[end..], end) {
                return Err(mismatch(o));
            }
            let words = &got[12..end];
            let set: Vec<u16> = match spec {
                PacketSpec::Fb(f) => f.fci.nack_set().unwrap().into_iter().collect(),
                _ => unreachable!(),
            };
            let decoded = ref_nack_decode(words);
            if decoded != set {
                return Err((
                    format!("{name}:nack-decode"),
                    format!("NACK words {} decode to {:?}, requested set is {:?}", hex(words), decoded, set),
                ));
            }
            // word count equals the minimum because the total length matched; PIDs strictly increasing
            let pids: Vec<u16> = (0..words.len() / 4).map(|i| be16(words, 4 * i)).collect();
            if pids.windows(2).any(|w| w[0] >= w[1]) {
                return Err((format!("{name}:nack-pid-order"), format!("PIDs not strictly increasing: {pids:?}")));
            }
            Ok(())
        }
        PacketSpec::Fb(FbSpec { fci: FciSpec::Fir(_), .. }) => {
            if let Some(o) = first_diff(&got[..12], &exp[..12], 0) {
                return Err(mismatch(o));
            }
            let end = got.len() - pad;
            if let Some(o) = first_diff(&got[end..], &exp[end..], end) {
                return Err(mismatch(o));
            }
            let mut a: Vec<&[u8]> = got[12..end].chunks(8).collect();
            let mut b: Vec<&[u8]> = exp[12..end].chunks(8).collect();
            a.sort();
            b.sort();
            if a != b {
                return Err((format!("{name}:fir-entries"), format!("FIR entries differ as a multiset: got {} want {}", hex(&got[12..end]), hex(&exp[12..end]))));
            }
            Ok(())
        }
        PacketSpec::Bye(s) if s.reason.as_deref() == Some("") => {
            if got == &exp[..] {
                return Ok(());
            }
            let alt = ref_encode_bye_empty_reason_present(s);
            if got == &alt[..] {
                return Ok(());
            }
            Err(mismatch(first_diff(got, &exp, 0).unwrap_or(0)))
        }
        _ => match first_diff(got, &exp, 0) {
            None => Ok(()),
            Some(o) => Err(mismatch(o)),
        },
    }
}

/// sizes of the leaf images a compound (or a single leaf) must consist of
pub fn leaf_sizes(spec: &PacketSpec) -> Vec<usize> {
    spec.leaves().iter().map(|l| {
        // a BYE whose reason was set to "" may legitimately be 4 bytes longer; handled by the caller
        ref_size(l)
    }).collect()
}

pub fn compare_image(spec: &PacketSpec, got: &[u8], ctx: &str) -> Verdict {
    let leaves = spec.leaves();
    let mut at = 0usize;
    for (i, leaf) in leaves.iter().enumerate() {
        let mut n = ref_size(leaf);
        // latitude: empty-but-set BYE reason may be encoded as a zero length octet + fill
        if let PacketSpec::Bye(b) = leaf {
            if b.reason.as_deref() == Some("") && at + 4 <= got.len() {
                let hl = 4 * (be16(got, at + 2) as usize + 1);
                if hl == n + 4 {
                    n += 4;
                }
            }
        }
        if at + n > got.len() {
            fail!(
                format!("{ctx}:{}:length", spec.long_name()),
                "image of {} bytes ends inside member {i} ({}), which needs bytes {at}..{}; got {}",
                got.len(),
                leaf.long_name(),
                at + n,
                hex(got)
            );
        }
        if let Err((sig, detail)) = compare_leaf(leaf, &got[at..at + n]) {
            let sig = if leaves.len() > 1 || matches!(spec, PacketSpec::Compound(_)) { format!("{ctx}:COMPOUND:{sig}") } else { format!("{ctx}:{sig}") };
            fail!(sig, "member {i}: {detail}");
        }
        at += n;
    }
    ensure!(at == got.len(), format!("{ctx}:{}:length", spec.long_name()), "image has {} bytes, members account for {at}; got {}", got.len(), hex(got));
    Ok(())
}

pub(crate) fn c07_oracle(c: &BuildCase, st: &mut Stats) -> Verdict {
    st.label(&c.spec.long_name());
    if c.how.wrap {
        st.label("how:PacketBuilder-wrapped");
    }
    if c.how.fb_owned {
        st.label("how:fb-owned");
    }
    if c.how.single_compound {
        st.label("how:single-member-compound");
    }
    let padded = any_padding(&c.spec);
    st.label_if(padded, "padded");
    if padded || has_variable_content(&c.spec) {
        st.nontrivial();
    }
    if let PacketSpec::Compound(v) = &c.spec {
        if v.is_empty() {
            st.label("empty-compound");
        }
    }
    let got = build_valid(&c.spec, c.how, "C07")?;
    compare_image(&c.spec, &got, "C07")?;
    // the same image when the caller's buffer is longer than needed (the length field is size/4-1, not room/4-1)
    let slack = 1 + (c.salt % 11) as usize;
    if let Some(roomy) = build_with_slack(&c.spec, c.how, slack) {
        st.label("also written into a buffer with slack");
        compare_image(&c.spec, &roomy, "C07").map_err(|f| Failure::new(format!("{}:in-a-buffer-with-slack", f.signature), format!("written into a buffer {slack} bytes longer than needed: {}", f.detail)))?;
    }
    Ok(())
}

pub fn c07(tier: Tier) -> Check {
    let cases = tier.pick(480_000, 4_500_000);
    Check {
        property: "C07",
        rule: "cases = (representable configuration of any builder kind incl. compounds and third-party writers, construction path); \
               the builder's bytes (garbage-prefilled exact buffer) are compared with an independent RFC encoder, FIR entries as a multiset, \
               NACK by reference-decoding + minimal word count + strictly increasing PIDs; non-trivial = padded or with >= 1 variable-length element; \
               distinct = distinct (spec, path) by 64-bit hash",
        assumptions: vec![
            "the reference encoder in harness/src/model.rs is the RFC image (self-tested against the repository's golden vectors and RFC figures on every run)",
            "NACK minimality is judged among encodings whose decoded sequence is ascending (no word wraps past 65535)",
        ],
        legs: vec![
            super::reuse::reuse_leg("C07", tier),
            Box::new(RandomLeg { name: "random-configs", cases, make: Box::new(valid_build_case), oracle: c07_oracle }),
            Box::new(SweepLeg {
                name: "bye-reason-x-padding",
                n: 256 * 4 * 3,
                at: Box::new(|i| {
                    let reason_len = (i % 256) as usize;
                    let padding = [0u8, 4, 8, 252][((i / 256) % 4) as usize];
                    let nsrc = [0usize, 1, 31][(i / 1024) as usize];
                    BuildCase {
                        spec: PacketSpec::Bye(ByeSpec {
                            sources: (0..nsrc as u32).map(|k| 0x0100_0000u32.wrapping_mul(k + 1) | k).collect(),
                            reason: if reason_len == 0 { None } else { Some("r".repeat(reason_len)) },
                            padding,
                        }),
                        how: How::default(),
                        salt: 0,
                    }
                }),
                oracle: c07_oracle,
                exhaustive: true,
            }),
            Box::new(SweepLeg {
                name: "rpsi-len-x-bits-x-padding",
                n: 41 * 9 * 3,
                at: Box::new(|i| {
                    let len = (i % 41) as usize;
                    let bits = ((i / 41) % 9) as u8;
                    let padding = [0u8, 4, 252][(i / (41 * 9)) as usize];
                    BuildCase {
                        spec: PacketSpec::Fb(FbSpec {
                            kind: FbKind::Payload,
                            sender: 0x01020304,
                            media: 0xa0b0c0d0,
                            fci: FciSpec::Rpsi { pt: 0x7f, data: (0..len).map(|k| 0xff - k as u8).collect(), overrun: if len == 0 { 0 } else { bits } },
                            padding,
                        }),
                        how: How { fb_owned: i % 2 == 1, ..How::default() },
                        salt: 0,
                    }
                }),
                oracle: c07_oracle,
                exhaustive: true,
            }),
            Box::new(RandomLeg {
                name: "sdes-chunk-and-item-builders",
                cases: tier.pick(160_000, 900_000),
                make: Box::new(|| super::sizes::part_case(true)),
                oracle: super::sizes::c07_part_oracle,
            }),
            Box::new(SweepLeg {
                name: "sdes-item-length-limits",
                n: super::sizes::ITEM_SWEEP_N,
                at: Box::new(super::sizes::item_sweep),
                oracle: super::sizes::c07_part_oracle,
                exhaustive: true,
            }),
            Box::new(SweepLeg {
                name: "every-kind-x-every-padding",
                n: 64 * KIND_TEMPLATES as u64,
                at: Box::new(|i| {
                    let padding = ((i % 64) * 4) as u8;
                    let mut spec = kind_template((i / 64) as usize);
                    spec.set_padding(padding);
                    BuildCase { spec, how: How { wrap: i % 3 == 1, fb_owned: i % 2 == 1, single_compound: i % 5 == 4, owned: i % 4 == 3, probe: i % 5 == 2 }, salt: 0 }
                }),
                oracle: c07_oracle,
                exhaustive: true,
            }),
        ],
    }
}

pub const KIND_TEMPLATES: usize = 14;

/// one small configuration with variable content per builder kind (incl. each FCI)
pub fn kind_template(k: usize) -> PacketSpec {
    let rb = RbSpec { ssrc: 0x11223344, fraction_lost: 0xfe, cumulative_lost: 0x00abcdef, ext_seq: 0x01020304, jitter: 5, lsr: 0xffff_0000, dlsr: 0x0000_ffff };
    match k {
        0 => PacketSpec::Sr(SrSpec { ssrc: 0x00000001, ntp: 0x0102030405060708, rtp: 9, packet_count: 10, octet_count: 11, blocks: vec![rb.clone()], padding: 0 }),
        1 => PacketSpec::Rr(RrSpec { ssrc: 0xfffefdfc, blocks: vec![rb.clone(), rb], padding: 0 }),
        2 => PacketSpec::Sdes(SdesSpec {
            chunks: vec![
                ChunkSpec { ssrc: 0x00ab_cdef, items: vec![ItemSpec { ty: 1, prefix: vec![], value: "a".into() }] },
                ChunkSpec { ssrc: 0, items: vec![ItemSpec { ty: 8, prefix: vec![1, 2], value: "xyz".into() }, ItemSpec { ty: 2, prefix: vec![], value: "".into() }] },
            ],
            padding: 0,
        }),
        3 => PacketSpec::Bye(ByeSpec { sources: vec![1, 0x0000_00ff], reason: Some("going".into()), padding: 0 }),
        4 => PacketSpec::Bye(ByeSpec { sources: vec![], reason: Some("xy".into()), padding: 0 }),
        5 => PacketSpec::App(AppSpec { ssrc: 0x80000000, subtype: 17, name: "ab".into(), data: vec![1, 2, 3, 4, 5, 6, 7, 8], padding: 0 }),
        6 => PacketSpec::Fb(FbSpec { kind: FbKind::Transport, sender: 1, media: 2, fci: FciSpec::Nack(vec![10, 11, 26, 27, 100]), padding: 0 }),
        7 => PacketSpec::Fb(FbSpec { kind: FbKind::Payload, sender: 3, media: 4, fci: FciSpec::Pli, padding: 0 }),
        8 => PacketSpec::Fb(FbSpec { kind: FbKind::Payload, sender: 5, media: 6, fci: FciSpec::Sli(vec![(1, 2, 3), (0x1fff, 0x1fff, 0x3f)]), padding: 0 }),
        9 => PacketSpec::Fb(FbSpec { kind: FbKind::Payload, sender: 7, media: 8, fci: FciSpec::Rpsi { pt: 100, data: vec![0xab, 0xcd, 0xef], overrun: 5 }, padding: 0 }),
        10 => PacketSpec::Fb(FbSpec { kind: FbKind::Payload, sender: 9, media: 0, fci: FciSpec::Fir(vec![(0xdead_beef, 1), (0x0000_0001, 255)]), padding: 0 }),
        11 => PacketSpec::Unknown(UnknownSpec { pt: 210, count: 9, data: vec![0xaa; 12], padding: 0 }),
        12 => PacketSpec::Custom(CustomSpec { family: 3, count: 2, ssrc: 0x0a0b0c0d, fixed: (0..20).collect(), tail: vec![9, 9, 9, 9], padding: 0 }),
        _ => PacketSpec::Compound(vec![
            PacketSpec::Rr(RrSpec { ssrc: 77, blocks: vec![], padding: 0 }),
            PacketSpec::Sdes(SdesSpec { chunks: vec![ChunkSpec { ssrc: 77, items: vec![ItemSpec { ty: 1, prefix: vec![], value: "cn".into() }] }], padding: 0 }),
            PacketSpec::Bye(ByeSpec { sources: vec![77], reason: Some("bye".into()), padding: 0 }),
        ]),
    }
}

