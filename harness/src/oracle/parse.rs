//! Parser-side oracles over byte strings: C08 (accepted only if exactly framed), C18 (parse errors
//! tell the truth). C01/C09/C11/C12 live in parse2.rs.

use crate::gen;
use crate::model::*;
use crate::run::*;
use crate::{ensure, fail};
use rtcp_types::prelude::*;
use rtcp_types::*;

/// (name, packet type, minimum size, bytes per count unit, fixed part before the counted units)
pub const TYPED: [(&str, u8, usize, usize, usize); 7] = [
    ("SenderReport", 200, 28, 24, 28),
    ("ReceiverReport", 201, 8, 24, 8),
    ("Sdes", 202, 4, 0, 4),
    ("Bye", 203, 4, 4, 4),
    ("App", 204, 12, 0, 12),
    ("TransportFeedback", 205, 12, 0, 12),
    ("PayloadFeedback", 206, 12, 0, 12),
];

/// header accessor values of an accepted packet: (version, type, count, subtype, length, padding)
pub type HdrView = (u8, u8, u8, u8, usize, Option<u8>);

/// run typed parser number `k` and, when it accepts, read the header accessors
pub fn typed_parse(k: usize, b: &[u8]) -> Result<Result<HdrView, RtcpParseError>, Failure> {
    macro_rules! go {
        ($t:ty, $name:expr) => {{
            let r = no_panic($name, || <$t>::parse(b))?;
            match r {
                Err(e) => Ok(Err(e)),
                Ok(p) => no_panic(concat!("header accessors"), || (p.version(), p.type_(), p.count(), p.subtype(), p.length(), p.padding())).map(Ok),
            }
        }};
    }
    match k {
        0 => go!(SenderReport, "SenderReport::parse"),
        1 => go!(ReceiverReport, "ReceiverReport::parse"),
        2 => go!(Sdes, "Sdes::parse"),
        3 => go!(Bye, "Bye::parse"),
        4 => go!(App, "App::parse"),
        5 => go!(TransportFeedback, "TransportFeedback::parse"),
        _ => go!(PayloadFeedback, "PayloadFeedback::parse"),
    }
}

fn packet_hdr(p: &Packet) -> (HdrView, &'static str) {
    let pad = match p {
        Packet::App(x) => x.padding(),
        Packet::Bye(x) => x.padding(),
        Packet::Rr(x) => x.padding(),
        Packet::Sdes(x) => x.padding(),
        Packet::Sr(x) => x.padding(),
        Packet::TransportFeedback(x) => x.padding(),
        Packet::PayloadFeedback(x) => x.padding(),
        Packet::Unknown(_) => None,
    };
    let v = match p {
        Packet::App(_) => "App",
        Packet::Bye(_) => "Bye",
        Packet::Rr(_) => "ReceiverReport",
        Packet::Sdes(_) => "Sdes",
        Packet::Sr(_) => "SenderReport",
        Packet::TransportFeedback(_) => "TransportFeedback",
        Packet::PayloadFeedback(_) => "PayloadFeedback",
        Packet::Unknown(_) => "Unknown",
    };
    ((p.version(), p.type_(), p.count(), p.subtype(), p.length(), pad), v)
}

/// what C08 demands of a string that parser `name` (type `pt`, minimum `min`) accepted
fn check_accepted(prop: &str, name: &str, pt: Option<u8>, min: usize, unit: usize, fixed: usize, b: &[u8], h: &HdrView, has_padding: bool) -> Verdict {
    match ref_framing(b, pt, min) {
        Framing::Well { .. } | Framing::PaddingZone => {}
        Framing::Bad(why) if why == "zero padding count" && !has_padding => {}
        Framing::Bad(why) => fail!(format!("{prop}:{name}:accepted-misframed:{why}"), "{name}::parse accepted {} although: {why}", hex(b)),
    }
    let r = ref_hdr(b);
    if unit > 0 {
        let need = fixed + unit * r.count as usize;
        ensure!(b.len() >= need, format!("{prop}:{name}:accepted-body-too-small-for-count"), "{name}::parse accepted {} bytes with count {} (needs {need}): {}", b.len(), r.count, hex(b));
    }
    let want: HdrView = (2, b[1], r.count, r.count, b.len(), if r.p && has_padding { Some(b[b.len() - 1]) } else { None });
    ensure!(*h == want, format!("{prop}:{name}:header-accessors"), "(version, type, count, subtype, length, padding) = {h:?}, header says {want:?}; bytes {}", hex(b));
    Ok(())
}

pub(crate) fn c08_oracle(c: &Bytes, st: &mut Stats) -> Verdict {
    let b = &c.0[..];
    let mut accepted = false;
    for (k, (name, pt, min, unit, fixed)) in TYPED.iter().enumerate() {
        match typed_parse(k, b)? {
            Ok(h) => {
                accepted = true;
                st.label(&format!("accepted-by:{name}"));
                check_accepted("C08", name, Some(*pt), *min, *unit, *fixed, b, &h, true)?;
            }
            Err(_) => {
                // the rejection side is not vacuous: strings that carry this parser's type byte and were rejected,
                // by the first framing condition the reference finds violated (or none: a body-level rejection)
                if b.len() >= 4 && b[1] == *pt {
                    match ref_framing(b, Some(*pt), *min) {
                        Framing::Bad(why) => st.label(&format!("rejected-with-matching-type-byte:{why}")),
                        _ => st.label("rejected-with-matching-type-byte:framing fine (count / body level)"),
                    }
                }
            }
        }
    }
    // the generic parser: the guarantees of whichever type it dispatches to
    let r = no_panic("Packet::parse", || Packet::parse(b))?;
    if let Ok(p) = r {
        accepted = true;
        let (h, variant) = no_panic("Packet header accessors", || packet_hdr(&p))?;
        let t = TYPED.iter().find(|t| t.1 == b[1]);
        match t {
            Some((name, pt, min, unit, fixed)) => {
                ensure!(variant == *name, "C08:Packet:wrong-variant", "type byte {} dispatched to {variant}", b[1]);
                check_accepted("C08", "Packet", Some(*pt), *min, *unit, *fixed, b, &h, true)?;
            }
            None => {
                ensure!(variant == "Unknown", "C08:Packet:wrong-variant", "type byte {} dispatched to {variant}", b[1]);
                check_accepted("C08", "Packet", None, 4, 0, 4, b, &h, false)?;
            }
        }
    }
    let r = no_panic("Unknown::parse", || Unknown::parse(b))?;
    if let Ok(u) = r {
        accepted = true;
        st.label("accepted-by:Unknown");
        let h = no_panic("Unknown header accessors", || (u.version(), u.type_(), u.count(), u.subtype(), u.length(), None))?;
        check_accepted("C08", "Unknown", None, 4, 0, 4, b, &h, false)?;
    }
    if accepted {
        st.nontrivial();
    } else {
        st.label("rejected-by-all");
    }
    Ok(())
}

/// header-space sweep: version x P x count x PT x length field x actual length x last byte x body fill
pub struct HeaderSweep {
    pub counts: Vec<u8>,
}

const SW_PT: [u8; 11] = [0, 199, 200, 201, 202, 203, 204, 205, 206, 207, 255];
const SW_LF: [u16; 10] = [0, 1, 2, 3, 4, 5, 6, 7, 8, 0xffff];
const SW_LAST: [u8; 3] = [0, 1, 4];

impl HeaderSweep {
    pub fn new(tier: Tier) -> Self {
        HeaderSweep { counts: tier.pick(vec![0, 1, 2, 3, 30, 31], (0..32).collect()) }
    }
    pub fn n(&self) -> u64 {
        4 * 2 * self.counts.len() as u64 * SW_PT.len() as u64 * SW_LF.len() as u64 * 45 * 3 * 2
    }
    pub fn at(&self, mut i: u64) -> Bytes {
        // ordered small-to-large: actual length is the slowest dimension
        let mut take = |n: u64| {
            let r = i % n;
            i /= n;
            r as usize
        };
        let fill = take(2);
        let last = SW_LAST[take(3)];
        let lf = SW_LF[take(SW_LF.len() as u64)];
        let pt = SW_PT[take(SW_PT.len() as u64)];
        let count = self.counts[take(self.counts.len() as u64)];
        let p = take(2) as u8;
        let version = [2u8, 0, 1, 3][take(4)];
        let len = take(45);
        let mut b = vec![if fill == 0 { 0u8 } else { 0x5a }; len];
        if len > 0 {
            b[0] = version << 6 | p << 5 | count;
        }
        if len > 1 {
            b[1] = pt;
        }
        if len > 2 {
            b[2] = (lf >> 8) as u8;
        }
        if len > 3 {
            b[3] = lf as u8;
        }
        if len > 4 {
            b[len - 1] = last;
        }
        Bytes(b)
    }
}

// ---------------------------------------------------------------------------------------------
// the length-field sweep shared by C01, C08, C09, C12, C18, C19
// ---------------------------------------------------------------------------------------------

/// A version-2 packet image given by its header and its real length; the body is zeros. Kept
/// symbolic (the images go up to 256 KiB) and materialised by the oracle.
#[derive(Clone, Debug, PartialEq, Eq, Hash, serde::Serialize, serde::Deserialize)]
pub struct LenCase {
    pub pt: u8,
    pub count: u8,
    pub p: bool,
    /// the 16-bit length field
    pub lf: u16,
    /// the real length in bytes
    pub len: u32,
    /// the final byte (the padding count when P is set)
    pub last: u8,
    /// every other body byte
    #[serde(default)]
    pub fill: u8,
}

impl LenCase {
    pub fn bytes(&self) -> Bytes {
        let len = self.len as usize;
        let mut b = vec![self.fill; len];
        let hdr = [0x80 | (self.p as u8) << 5 | (self.count & 31), self.pt, (self.lf >> 8) as u8, self.lf as u8];
        for (i, h) in hdr.iter().enumerate() {
            if i < len {
                b[i] = *h;
            }
        }
        if len > 4 {
            b[len - 1] = self.last;
        }
        Bytes(b)
    }
    pub fn exact(&self) -> bool {
        self.len as usize == 4 * (self.lf as usize + 1)
    }
}

/// the length fields visited: all 65536 in the thorough tier; in the quick tier every value below
/// 1024, every value whose low byte is 00/01/fe/ff (carries between the two bytes), every 61st value
pub fn len_fields(tier: Tier) -> Vec<u16> {
    (0..=0xffffu32)
        .filter(|lf| tier == Tier::Thorough || *lf < 1024 || matches!(lf & 0xff, 0 | 1 | 0xfe | 0xff) || lf % 61 == 0)
        .map(|lf| lf as u16)
        .collect()
}

pub const LEN_VARIANTS: u64 = 11;

/// variant 0: exactly framed; 1: exactly framed and padded (P, last byte 4); 2 and 3: the real length is that of
/// the length field with one bit flipped (a lost or invented carry); 4, 5: one word longer / shorter; 6: exactly
/// framed, P set, final byte 0; 7: the exact length plus 65536 words; 8: bit 8 of the length flipped; 9: its bytes swapped;
/// 10: as 6 with every other body byte 4 (a padding count read at a wrong index looks legal)
pub const LEN_PTS: [u8; 8] = [200, 201, 202, 203, 204, 205, 206, 207];

/// index -> (length field, variant, packet type): every typed parser sees every length field in every variant
pub fn len_case(lfs: &[u16], i: u64) -> LenCase {
    let pt = LEN_PTS[(i % 8) as usize];
    let i = i / 8;
    let lf = lfs[(i / LEN_VARIANTS) as usize % lfs.len()];
    let v = i % LEN_VARIANTS;
    let words = lf as u32 + 1;
    let fill = if v == 10 { 4 } else { 0 };
    let (len, p, last) = match v {
        0 => (4 * words, false, 0),
        1 => (4 * words, true, 4),
        2 => (4 * ((lf ^ (1 << (lf % 16))) as u32 + 1), false, 0),
        3 => (4 * ((lf ^ (1 << ((lf / 16) % 16))) as u32 + 1), false, 0),
        4 => (4 * (words + 1), false, 0),
        5 => (4 * (words - 1), false, 0),
        // longer than any RTCP packet by exactly 2^16 words: the word count aliases the length field in 16 bits
        7 => (4 * words + 262_144, false, 0),
        // a carry lost or invented between the two bytes of the length field; the two bytes swapped
        8 => (4 * ((lf ^ 0x0100) as u32 + 1), false, 0),
        9 => (4 * (lf.swap_bytes() as u32 + 1), false, 0),
        _ => (4 * words, true, 0),
    };
    LenCase { pt, count: 0, p, lf, len, last, fill }
}

pub(crate) fn c08_len_oracle(c: &LenCase, st: &mut Stats) -> Verdict {
    st.label(if c.exact() { "exactly framed" } else { "length field and real length differ" });
    c08_oracle(&c.bytes(), st)
}

pub(crate) fn c18_len_oracle(c: &LenCase, st: &mut Stats) -> Verdict {
    st.label(if c.exact() { "exactly framed" } else { "length field and real length differ" });
    c18_oracle(&c.bytes(), st)
}

/// a small selection for oracles that are expensive on 256 KiB inputs (C01 renders every value with
/// Debug): 0..=40, the powers of two and their neighbours, the top of the range
pub fn len_fields_small() -> Vec<u16> {
    let mut v: Vec<u32> = (0..=40).collect();
    for k in 6..16 {
        v.extend_from_slice(&[(1 << k) - 1, 1 << k, (1 << k) + 1]);
    }
    v.extend_from_slice(&[0x01ff, 0x3fff, 0x4000, 0xfffe, 0xffff]);
    v.sort();
    v.dedup();
    v.into_iter().map(|x| x as u16).collect()
}

pub fn len_leg_small(oracle: Oracle<LenCase>) -> Box<dyn Leg> {
    let lfs = std::sync::Arc::new(len_fields_small());
    let n = lfs.len() as u64 * LEN_VARIANTS * 8;
    Box::new(SweepLeg { name: "every-length-field", n, at: Box::new(move |i| len_case(&lfs, i)), oracle, exhaustive: false })
}

pub fn len_leg(tier: Tier, oracle: Oracle<LenCase>) -> Box<dyn Leg> {
    let lfs = std::sync::Arc::new(len_fields(tier));
    let n = lfs.len() as u64 * LEN_VARIANTS * 8;
    Box::new(SweepLeg { name: "every-length-field", n, at: Box::new(move |i| len_case(&lfs, i)), oracle, exhaustive: tier == Tier::Thorough })
}

pub fn c08(tier: Tier) -> Check {
    let sweep = std::sync::Arc::new(HeaderSweep::new(tier));
    let n = sweep.n();
    Check {
        property: "C08",
        rule: "cases = byte strings: framed (header fields drawn, length field right / off by a word / 0xffff, chosen last byte), mutated reference images, random, concatenations; \
               + header-space sweep version x P x count x PT {0,199..=207,255} x length field {0..=8,0xffff} x actual length 0..=44 x last byte {0,1,4} x 2 fills; \
               oracle: each of the 7 typed parsers, Packet::parse and Unknown::parse: Ok => len >= MIN, version 2, type byte, 4*(lf+1) == len, P => last byte != 0, count-implied body (SR 28+24c, RR 8+24c, BYE 4+4c), \
               and the header accessors return exactly those values; non-trivial = accepted by some parser",
        assumptions: vec!["the count-implied bound is read leniently (body measured to the packet end, padding not subtracted)"],
        legs: vec![
            Box::new(RandomLeg { name: "generated-strings", cases: tier.pick(600_000, 4_000_000), make: Box::new(gen::parser_input), oracle: c08_oracle }),
            Box::new(SweepLeg { name: "header-space", n, at: Box::new(move |i| sweep.at(i)), oracle: c08_oracle, exhaustive: true }),
            len_leg(tier, c08_len_oracle),
        ],
    }
}

// ---------------------------------------------------------------------------------------------
// C18
// ---------------------------------------------------------------------------------------------

/// the accuracy claims every error must satisfy, whatever parser produced it
fn truthful(name: &str, requested: Option<u8>, b: &[u8], e: &RtcpParseError) -> Verdict {
    match e {
        RtcpParseError::UnsupportedVersion(v) => {
            ensure!(!b.is_empty() && *v == b[0] >> 6 && *v != 2, format!("C18:{name}:UnsupportedVersion-untrue"), "{e:?} for input {}", hex(b));
        }
        RtcpParseError::PacketTypeMismatch { actual, requested: r } => {
            ensure!(b.len() >= 2 && *actual == b[1], format!("C18:{name}:PacketTypeMismatch-actual-untrue"), "{e:?} for input {}", hex(b));
            ensure!(actual != r, format!("C18:{name}:PacketTypeMismatch-equal-types"), "{e:?} for input {}", hex(b));
            if let Some(want) = requested {
                ensure!(*r == want, format!("C18:{name}:PacketTypeMismatch-requested-untrue"), "{e:?} from the parser of type {want}; input {}", hex(b));
            }
        }
        RtcpParseError::Truncated { expected, actual } => {
            ensure!(expected > actual, format!("C18:{name}:Truncated-expected<=actual"), "{e:?} for input {}", hex(b));
        }
        RtcpParseError::TooLarge { expected, actual } => {
            ensure!(expected < actual, format!("C18:{name}:TooLarge-expected>=actual"), "{e:?} for input {}", hex(b));
        }
        _ => {}
    }
    Ok(())
}

/// the two exact predictions for a header-checked parser of type `pt` (None = any type) / minimum `min`
fn exact(name: &str, pt: Option<u8>, min: usize, b: &[u8], r: &Result<(), RtcpParseError>) -> Verdict {
    if b.len() < min {
        let want = RtcpParseError::Truncated { expected: min, actual: b.len() };
        ensure!(*r == Err(want), format!("C18:{name}:short-input-not-Truncated(min,len)"), "input of {} bytes (minimum {min}): got {r:?}; input {}", b.len(), hex(b));
        return Ok(());
    }
    let h = ref_hdr(b);
    if h.version == 2 && pt.map(|p| p == h.pt).unwrap_or(true) && h.hl != b.len() {
        let want = if h.hl > b.len() { RtcpParseError::Truncated { expected: h.hl, actual: b.len() } } else { RtcpParseError::TooLarge { expected: h.hl, actual: b.len() } };
        ensure!(*r == Err(want), format!("C18:{name}:length-mismatch-not-reported-exactly"), "header length {} vs real length {}: got {r:?}; input {}", h.hl, b.len(), hex(b));
    }
    Ok(())
}

fn variant_name(e: &RtcpParseError) -> String {
    let s = format!("{e:?}");
    s.split(|c: char| !c.is_alphanumeric()).next().unwrap_or("").to_string()
}

pub(crate) fn c18_oracle(c: &Bytes, st: &mut Stats) -> Verdict {
    let b = &c.0[..];
    let mut any_err = false;
    let note = |st: &mut Stats, who: &str, e: &RtcpParseError| {
        st.label(&format!("{who}:{}", variant_name(e)));
    };
    for (k, (name, pt, min, _, _)) in TYPED.iter().enumerate() {
        let r = typed_parse(k, b)?.map(|_| ());
        if let Err(e) = &r {
            // six of the seven typed parsers reject every input for its type byte alone: only the error of the
            // parser whose type the input carries makes a case non-trivial
            if b.len() >= 2 && b[1] == *pt {
                any_err = true;
            }
            note(st, "typed", e);
            truthful(name, Some(*pt), b, e)?;
        }
        exact(name, Some(*pt), *min, b, &r)?;
    }
    // generic parser: exact predictions of the dispatched type
    let r = no_panic("Packet::parse", || Packet::parse(b).map(|_| ()))?;
    if let Err(e) = &r {
        any_err = true;
        note(st, "Packet", e);
        truthful("Packet", None, b, e)?;
    }
    if b.len() < 4 {
        exact("Packet", None, 4, b, &r)?;
    } else {
        match TYPED.iter().find(|t| t.1 == b[1]) {
            Some((_, pt, min, _, _)) => exact("Packet", Some(*pt), *min, b, &r)?,
            None => exact("Packet", None, 4, b, &r)?,
        }
    }
    let r = no_panic("Unknown::parse", || Unknown::parse(b).map(|_| ()))?;
    if let Err(e) = &r {
        any_err = true;
        note(st, "Unknown", e);
        truthful("Unknown", None, b, e)?;
    }
    exact("Unknown", None, 4, b, &r)?;
    // compound
    let r = no_panic("Compound::parse", || Compound::parse(b).map(|_| ()))?;
    if let Err(e) = &r {
        any_err = true;
        note(st, "Compound", e);
        truthful("Compound", None, b, e)?;
    }
    if b.len() < 4 {
        let want = RtcpParseError::Truncated { expected: 4, actual: b.len() };
        ensure!(r == Err(want), "C18:Compound:short-input-not-Truncated(min,len)", "input of {} bytes: got {r:?}", b.len());
    }
    if let Ok(()) = r {
        // errors yielded by iteration are errors of the generic parser on a tile
        let mut it = Compound::parse(b).unwrap();
        let mut at = 0usize;
        let mut steps = 0;
        while let Some(item) = no_panic("Compound::next", || it.next())? {
            steps += 1;
            if steps > b.len() {
                break;
            }
            let l = 4 * (be16(b, at + 2) as usize + 1);
            if let Err(e) = &item {
                any_err = true;
                note(st, "Compound-item", e);
                truthful("Compound-item", None, &b[at..(at + l).min(b.len())], e)?;
            }
            at += l;
            if at + 4 > b.len() {
                break;
            }
        }
    }
    // report block and FCI parsers on the raw string
    let r = no_panic("ReportBlock::parse", || ReportBlock::parse(b).map(|_| ()))?;
    if let Err(e) = &r {
        note(st, "ReportBlock", e);
        truthful("ReportBlock", None, b, e)?;
    }
    if b.len() < 24 {
        ensure!(r == Err(RtcpParseError::Truncated { expected: 24, actual: b.len() }), "C18:ReportBlock:short-input-not-Truncated(min,len)", "input of {} bytes: got {r:?}", b.len());
    }
    macro_rules! fci {
        ($t:ty, $name:expr) => {{
            let r = no_panic($name, || <$t as FciParser>::parse(b).map(|_| ()))?;
            if let Err(e) = &r {
                note(st, "fci", e);
                truthful($name, None, b, e)?;
            }
        }};
    }
    fci!(Nack, "Nack::parse");
    fci!(Pli, "Pli::parse");
    fci!(Sli, "Sli::parse");
    fci!(Rpsi, "Rpsi::parse");
    fci!(Fir, "Fir::parse");
    // conversion errors of an accepted generic packet
    if let Ok(p) = Packet::parse(b) {
        macro_rules! conv {
            ($t:ty, $pt:expr) => {{
                let r = no_panic("Packet::try_as", || p.try_as::<$t>().map(|_| ()))?;
                if let Err(e) = &r {
                    any_err = true;
                    note(st, "try_as", e);
                    truthful("Packet::try_as", Some($pt), b, e)?;
                }
            }};
        }
        conv!(SenderReport, 200);
        conv!(ReceiverReport, 201);
        conv!(Sdes, 202);
        conv!(Bye, 203);
        conv!(App, 204);
        conv!(TransportFeedback, 205);
        conv!(PayloadFeedback, 206);
    }
    if any_err {
        st.nontrivial();
    }
    Ok(())
}

pub fn c18(tier: Tier) -> Check {
    let sweep = std::sync::Arc::new(HeaderSweep::new(tier));
    let n = sweep.n();
    Check {
        property: "C18",
        rule: "cases = byte strings as for C08 (generated + header-space sweep); parsers: the 7 typed parsers, Packet, Unknown, Compound (+ errors yielded by its iteration), ReportBlock, the 5 FCI parsers, Packet::try_as; \
               oracle on Err(e): UnsupportedVersion(v) => v == input version != 2; PacketTypeMismatch => actual == type byte, requested == the parser's type, they differ; Truncated => expected > actual; TooLarge => expected < actual; \
               + every length field (all 65536 in the thorough tier) x {exact, exact+padded, one bit of the length flipped (2 ways), one word longer / shorter, P with a zero count}, zero bodies up to 256 KiB; + SDES-shaped bodies; \
               exact predictions: len < MIN => Truncated{MIN,len}; version 2, right type, len >= MIN, len != 4*(lf+1) => Truncated/TooLarge{4*(lf+1),len} by sign; non-trivial = an error from the typed parser whose type byte the input carries, from Packet / Unknown / Compound (or an item of its iteration) or from a conversion (the errors of the other six typed parsers, of ReportBlock::parse and of the raw FCI parsers are judged too but do not count)",
        assumptions: vec!["other error variants (InvalidPadding, Sdes*, WrongImplementation) carry no claim in the statement and are not judged"],
        legs: vec![
            Box::new(RandomLeg { name: "generated-strings", cases: tier.pick(480_000, 3_000_000), make: Box::new(gen::parser_input), oracle: c18_oracle }),
            Box::new(SweepLeg { name: "header-space", n, at: Box::new(move |i| sweep.at(i)), oracle: c18_oracle, exhaustive: true }),
            len_leg(tier, c18_len_oracle),
            Box::new(RandomLeg { name: "sdes-shaped", cases: tier.pick(400_000, 2_000_000), make: Box::new(|| proptest::strategy::Strategy::boxed(proptest::prop_oneof![super::sdes::token_level(), super::sdes::mutated_sdes()])), oracle: c18_oracle }),
        ],
    }
}


