//! One oracle per property. Each module exposes `check(tier) -> Check`.

pub mod build;
pub mod common;
pub mod history;
pub mod misc;
pub mod parse;
pub mod reuse;
pub mod parse2;
pub mod sdes;
pub mod roundtrip;
pub mod sizes;
pub mod third;

use crate::run::{Check, Tier};

pub fn check_for(id: &str, tier: Tier) -> Option<Check> {
    match id {
        "C01" => Some(parse2::c01(tier)),
        "C09" => Some(parse2::c09(tier)),
        "C10" => Some(sdes::c10(tier)),
        "C11" => Some(parse2::c11(tier)),
        "C12" => Some(parse2::c12(tier)),
        "C02" => Some(roundtrip::c02(tier)),
        "C03" => Some(roundtrip::c03(tier)),
        "C04" => Some(roundtrip::c04(tier)),
        "C05" => Some(roundtrip::c05(tier)),
        "C06" => Some(sizes::c06(tier)),
        "C07" => Some(build::c07(tier)),
        "C08" => Some(parse::c08(tier)),
        "C18" => Some(parse::c18(tier)),
        "C13" => Some(misc::c13(tier)),
        "C15" => Some(misc::c15(tier)),
        "C19" => Some(third::c19(tier)),
        "C20" => Some(history::c20(tier)),
        "C14" => Some(sizes::c14(tier)),
        "C16" => Some(sizes::c16(tier)),
        "C17" => Some(sizes::c17(tier)),
        _ => None,
    }
}

pub const ALL: [&str; 20] = [
    "C01", "C02", "C03", "C04", "C05", "C06", "C07", "C08", "C09", "C10", "C11", "C12", "C13", "C14", "C15", "C16", "C17", "C18",
    "C19", "C20",
];
