//! C19: third-party packet types built on the public helpers interoperate.

use crate::drive::*;
use crate::gen;
use crate::model::*;
use crate::run::*;
use crate::third_party::Custom;
use crate::with_family;
use crate::{ensure, fail};
use proptest::prelude::*;
use rtcp_types::prelude::*;
use rtcp_types::utils::{parser, writer};
use rtcp_types::*;
use serde::{Deserialize, Serialize};

#[derive(Clone, Debug, PartialEq, Eq, Hash, Serialize, Deserialize)]
pub enum ThirdCase {
    /// write_header_unchecked / write_padding_unchecked / check_padding / parse_* on a buffer of `words` words
    Helper { family: usize, padding: u8, count: u8, words: usize, fill: u8 },
    /// check_packet::<Custom<PT, MIN>> against the framing reference
    Frame { family: usize, bytes: Bytes },
    /// a custom or unknown-builder packet, alone and embedded at `position` among `neighbours` in a compound
    Packet { spec: PacketSpec, neighbours: Vec<PacketSpec>, position: usize },
}

fn helper(family: usize, padding: u8, count: u8, words: usize, fill: u8, st: &mut Stats) -> Verdict {
    let (pt, _min) = CUSTOM_FAMILY[family];
    st.label("helper-contracts");
    if padding > 0 || count > 0 {
        st.nontrivial();
    }
    let len = 4 * words;
    // check_padding
    let r = no_panic("writer::check_padding", || werr(writer::check_padding(padding)))?;
    if padding % 4 == 0 {
        ensure!(r == Ok(()), "C19:check_padding:rejects-legal", "check_padding({padding}) = {r:?}");
    } else {
        ensure!(r == Err(WErr::InvalidPadding { padding }), "C19:check_padding:accepts-illegal-or-wrong-error", "check_padding({padding}) = {r:?}");
    }
    if padding % 4 != 0 {
        // the writers are "unchecked": a third-party builder calls check_padding first (third_party.rs does),
        // so they are exercised with legal paddings only
        st.label("illegal padding: check_padding only");
        return Ok(());
    }
    // write_header_unchecked: header byte, PT, length from the buffer size, nothing else touched
    let mut buf = vec![fill; len];
    let n = with_family!(family, PT, MIN, { no_panic("writer::write_header_unchecked", || writer::write_header_unchecked::<Custom<'static, PT, MIN>>(padding, count, &mut buf))? });
    ensure!(n == 4, "C19:write_header_unchecked:return", "returned {n}");
    let b0 = 0x80 | if padding > 0 { 0x20 } else { 0 } | count;
    let lf = (words - 1) as u16;
    let want = [b0, pt, (lf >> 8) as u8, lf as u8];
    ensure!(buf[..4] == want, "C19:write_header_unchecked:header-bytes", "wrote {} for (padding {padding}, count {count}, {words} words, type {pt}), want {}", hex(&buf[..4]), hex(&want));
    ensure!(buf[4..].iter().all(|b| *b == fill), "C19:write_header_unchecked:touched-beyond-header", "bytes after the header were modified");
    // the parse_* helpers read the same header back
    let read = no_panic("parser::parse_*", || {
        (parser::parse_version(&buf), parser::parse_padding_bit(&buf), parser::parse_count(&buf), parser::parse_packet_type(&buf), parser::parse_length(&buf))
    })?;
    ensure!(read == (2, padding > 0, count, pt, len), "C19:parse-helpers", "parse_* = {read:?} on header {}", hex(&buf[..4]));
    if len >= 8 {
        buf[4..8].copy_from_slice(&[0xde, 0xad, 0xbe, 0xef]);
        let s = no_panic("parser::parse_ssrc", || parser::parse_ssrc(&buf))?;
        ensure!(s == 0xdead_beef, "C19:parse_ssrc", "parse_ssrc = {s:#x}");
    }
    // write_padding_unchecked at the end of the buffer (legal paddings only: callers check first)
    if padding % 4 == 0 && (padding as usize) <= len - 4 {
        let mut buf = vec![fill ^ 0xff; len];
        let at = len - padding as usize;
        let n = no_panic("writer::write_padding_unchecked", || writer::write_padding_unchecked(padding, &mut buf[at..]))?;
        ensure!(n == padding as usize, "C19:write_padding_unchecked:return", "returned {n} for padding {padding}");
        ensure!(buf[..at].iter().all(|b| *b == fill ^ 0xff), "C19:write_padding_unchecked:touched-before", "bytes before the trailer were modified");
        if padding > 0 {
            ensure!(buf[at..len - 1].iter().all(|b| *b == 0) && buf[len - 1] == padding, "C19:write_padding_unchecked:trailer", "trailer {} for padding {padding}", hex(&buf[at..]));
            // and parse_padding reads it back once the P bit is set
            buf[0] = 0xa0;
            buf[1] = pt;
            buf[2] = (lf >> 8) as u8;
            buf[3] = lf as u8;
            let p = no_panic("parser::parse_padding", || parser::parse_padding(&buf))?;
            ensure!(p == Some(padding), "C19:parse_padding", "parse_padding = {p:?}, trailer says {padding}");
        }
        // a trailer written into a larger slice leaves the rest alone
        let mut big = vec![fill; padding as usize + 8];
        let n = no_panic("writer::write_padding_unchecked", || writer::write_padding_unchecked(padding, &mut big))?;
        ensure!(n == padding as usize && big[padding as usize..].iter().all(|b| *b == fill), "C19:write_padding_unchecked:touched-after", "bytes after the trailer were modified");
    }
    Ok(())
}

fn frame(family: usize, b: &[u8], st: &mut Stats) -> Verdict {
    let (pt, min) = CUSTOM_FAMILY[family];
    let r = with_family!(family, PT, MIN, { no_panic("parser::check_packet", || parser::check_packet::<Custom<'static, PT, MIN>>(b))? });
    match ref_framing(b, Some(pt), min) {
        // a padding count that is not a multiple of 4 is an either-zone here as in C09 / C10 (RFC 3550: the
        // count "will be a multiple of four"; the statement's "well-framed" does not settle it)
        Framing::Well { padding } if padding % 4 != 0 => st.label("frame:either-zone (padding count not a multiple of 4)"),
        Framing::Well { .. } => {
            st.nontrivial();
            st.label("frame:well-framed");
            ensure!(r.is_ok(), "C19:check_packet:rejects-well-framed", "check_packet::<type {pt}, min {min}> = {r:?} on {}", hex(b));
        }
        Framing::PaddingZone => st.label("frame:either-zone (padding count larger than the bytes after MIN)"),
        Framing::Bad(why) => {
            st.label(&format!("frame:bad:{why}"));
            ensure!(r.is_err(), format!("C19:check_packet:accepts-misframed:{}", why.replace(' ', "-")), "check_packet::<type {pt}, min {min}> accepted {} although: {why}", hex(b));
        }
    }
    Ok(())
}

/// every field of a parsed custom packet against its spec
fn custom_fields<const PT: u8, const MIN: usize>(c: &Custom<'_, PT, MIN>, s: &CustomSpec, ctx: &str) -> Verdict {
    let got = guard(|| (c.count(), c.ssrc(), c.fixed().to_vec(), c.tail().to_vec(), c.padding()))
        .map_err(|cg| Failure::new(format!("C19:{ctx}:panic:custom-accessors"), cg.message))?;
    let want = (s.count, if MIN >= 8 { Some(s.ssrc) } else { None }, s.fixed.clone(), s.tail.clone(), if s.padding == 0 { None } else { Some(s.padding) });
    ensure!(got == want, format!("C19:{ctx}:custom-fields"), "fields after {ctx}: {got:?}, configured {want:?}");
    Ok(())
}

fn packet(spec: &PacketSpec, neighbours: &[PacketSpec], position: usize, st: &mut Stats) -> Verdict {
    let name = spec.long_name();
    st.label(&name);
    if spec.padding() != 0 || !neighbours.is_empty() {
        st.nontrivial();
    }
    if let PacketSpec::Unknown(u) = spec {
        if u.count > 0 {
            st.nontrivial();
        }
    }
    if let PacketSpec::Custom(c) = spec {
        if c.count > 0 {
            st.nontrivial();
        }
    }
    // written with a correct header and padding trailer
    // the construction path varies with the case: PacketBuilder wrapper, size queries between the setters,
    // the two independent setters of the unknown-packet builder in the other order (`owned`)
    let how = How { wrap: position % 2 == 1, owned: spec.padding() % 8 == 4, probe: neighbours.len() == 2, ..How::default() };
    st.label_if(how.owned, "how:setters-in-the-other-order");
    let bytes = build_valid(spec, how, "C19")?;
    let want = ref_encode(spec);
    ensure!(bytes == want, format!("C19:{name}:bytes"), "wrote {} want {}", hex(&bytes), hex(&want));
    // accepted by the generic parser as an unknown packet exposing the exact bytes
    let p = no_panic("Packet::parse", || Packet::parse(&bytes))?;
    let p = match p {
        Ok(p) => p,
        Err(e) => fail!(format!("C19:{name}:generic-parser-rejects"), "Packet::parse = Err({e:?}) on {}", hex(&bytes)),
    };
    match &p {
        Packet::Unknown(u) => {
            let d = no_panic("Unknown::data", || u.data())?;
            ensure!(d == &bytes[..] && d.as_ptr() == bytes.as_ptr(), format!("C19:{name}:unknown-data"), "Unknown::data() is not the packet");
        }
        other => fail!(format!("C19:{name}:not-unknown"), "generic parser yields {other:?}"),
    }
    if let PacketSpec::Custom(c) = spec {
        with_family!(c.family, PT, MIN, {
            let direct = no_panic("Custom::parse", || Custom::<PT, MIN>::parse(&bytes))?;
            match &direct {
                Ok(x) => custom_fields(x, c, "direct-parse")?,
                Err(e) => fail!("C19:CUSTOM:own-parser-rejects", "Custom::parse = Err({e:?}) on {}", hex(&bytes)),
            }
            let via_packet = no_panic("Packet::try_as::<Custom>", || p.try_as::<Custom<PT, MIN>>())?;
            match &via_packet {
                Ok(x) => custom_fields(x, c, "Packet::try_as")?,
                Err(e) => fail!("C19:CUSTOM:try_as-fails", "Packet::try_as = Err({e:?})"),
            }
            if let Packet::Unknown(u) = &p {
                let via_unknown = no_panic("Unknown::try_as::<Custom>", || u.try_as::<Custom<PT, MIN>>())?;
                match &via_unknown {
                    Ok(x) => custom_fields(x, c, "Unknown::try_as")?,
                    Err(e) => fail!("C19:CUSTOM:unknown-try_as-fails", "Unknown::try_as = Err({e:?})"),
                }
            }
        });
    }
    // embedded in a compound next to built-in (and custom) members
    if !neighbours.is_empty() {
        st.label("embedded-in-compound");
        let mut members: Vec<PacketSpec> = neighbours.to_vec();
        for m in members.iter_mut() {
            m.set_padding(0);
        }
        let pos = position.min(members.len());
        let mut me = spec.clone();
        if pos != members.len() {
            me.set_padding(0);
        }
        members.insert(pos, me.clone());
        let comp = PacketSpec::Compound(members.clone());
        let cb = build_valid(&comp, how, "C19")?;
        let parsed = no_panic("Compound::parse", || Compound::parse(&cb))?;
        let it = match parsed {
            Ok(it) => it,
            Err(e) => fail!("C19:compound:parse-rejects", "Compound::parse = Err({e:?}) on {}", hex(&cb)),
        };
        let items: Vec<Result<Packet, RtcpParseError>> = no_panic("Compound iteration", || it.take(members.len() + 2).collect())?;
        ensure!(items.len() == members.len(), "C19:compound:member-count", "{} packets for {} members", items.len(), members.len());
        match &items[pos] {
            Ok(Packet::Unknown(u)) => {
                let mine = ref_encode(&me);
                ensure!(u.data() == &mine[..], format!("C19:{name}:embedded-bytes"), "embedded member is {} want {}", hex(u.data()), hex(&mine));
                if let PacketSpec::Custom(c) = &me {
                    with_family!(c.family, PT, MIN, {
                        let x = no_panic("Unknown::try_as::<Custom>", || u.try_as::<Custom<PT, MIN>>())?;
                        match &x {
                            Ok(x) => custom_fields(x, c, "compound->Unknown->try_as")?,
                            Err(e) => fail!("C19:CUSTOM:embedded-try_as-fails", "try_as = Err({e:?})"),
                        }
                    });
                }
            }
            other => fail!(format!("C19:{name}:embedded-not-unknown"), "member {pos} of the compound parses as {other:?}"),
        }
    }
    Ok(())
}

pub(crate) fn c19_oracle(c: &ThirdCase, st: &mut Stats) -> Verdict {
    match c {
        ThirdCase::Helper { family, padding, count, words, fill } => helper(*family, *padding, *count, *words, *fill, st),
        ThirdCase::Frame { family, bytes } => frame(*family, &bytes.0, st),
        ThirdCase::Packet { spec, neighbours, position } => packet(spec, neighbours, *position, st),
    }
}

fn third_unknown() -> BoxedStrategy<PacketSpec> {
    gen::unknown_spec(false)
        .prop_map(|mut u| {
            if (200..=206).contains(&u.pt) {
                u.pt = u.pt.wrapping_add(50);
            }
            PacketSpec::Unknown(u)
        })
        .boxed()
}

fn third_case() -> BoxedStrategy<ThirdCase> {
    let helper = (0usize..CUSTOM_FAMILY.len(), prop_oneof![3 => gen::padding_ok(), 1 => any::<u8>()], 0u8..=31, prop_oneof![6 => 1usize..=64, 2 => 65usize..=1024], any::<u8>())
        .prop_map(|(family, padding, count, words, fill)| ThirdCase::Helper { family, padding, count, words, fill });
    let framed = (0usize..CUSTOM_FAMILY.len(), prop_oneof![gen::framed_bytes(), gen::mutated_bytes(), gen::random_bytes()], any::<u8>()).prop_map(|(family, mut b, k)| {
        // steer the type byte to the family's so that the other conditions decide
        if b.len() >= 2 && k % 4 != 0 {
            b[1] = CUSTOM_FAMILY[family].0;
        }
        ThirdCase::Frame { family, bytes: Bytes(b) }
    });
    let from_custom = (gen::custom_spec(false), proptest::collection::vec(gen::edit(), 0..=2)).prop_map(|(c, edits)| {
        let family = c.family;
        let mut b = ref_encode(&PacketSpec::Custom(c));
        for e in &edits {
            gen::apply_edit(&mut b, e);
        }
        ThirdCase::Frame { family, bytes: Bytes(b) }
    });
    let pkt = (
        prop_oneof![gen::custom_spec(false).prop_map(PacketSpec::Custom), third_unknown()],
        prop_oneof![2 => Just(Vec::new()), 3 => proptest::collection::vec(prop_oneof![gen::leaf_spec(false, true).prop_filter("parseable neighbours", |s| !matches!(s, PacketSpec::Unknown(u) if (200..=206).contains(&u.pt)))], 1..=3)],
        0usize..=3,
    )
        .prop_map(|(spec, neighbours, position)| ThirdCase::Packet { spec, neighbours, position });
    prop_oneof![2 => helper, 2 => framed, 2 => from_custom, 4 => pkt].boxed()
}

/// `check_packet::<Custom<PT, MIN>>` over every length field: zero-bodied images up to 256 KiB
fn c19_len_oracle(c: &super::parse::LenCase, st: &mut Stats) -> Verdict {
    // the packet type of the case selects the family member; the image carries that member's type
    let family = c.pt as usize % CUSTOM_FAMILY.len();
    let mut c = c.clone();
    c.pt = CUSTOM_FAMILY[family].0;
    frame(family, &c.bytes().0, st)
}

pub fn c19(tier: Tier) -> Check {
    Check {
        property: "C19",
        rule: "cases = (a) helper parameters: padding 0..=255 (check_padding) / legal paddings (write_padding_unchecked), count 0..=31, buffers of 1..=1024 words (+ 65536 words), 6 third-party types (PT, MIN) in \
               {(242,12),(192,4),(207,8),(209,28),(0,4),(255,16)}; (b) byte strings (framed, mutated custom images, random) for check_packet::<P> vs the framing reference; (c) custom and unknown-builder packets \
               (any type outside 200..=206, count 0..=31, word-aligned payload, legal padding), alone and embedded among 1..=3 built-in / custom members of a compound; oracle: header byte, PT, length from buffer size, trailer placement, \
               bytes outside untouched; check_packet Ok <=> well-framed (padding count larger than the bytes after MIN: either-zone); packet bytes == reference image; Packet::parse -> Unknown exposing exactly the bytes; \
               every Custom field intact after direct parse, Packet::try_as, Unknown::try_as and compound-parse -> Unknown -> try_as; non-trivial = padding, count > 0, or embedded in a compound",
        assumptions: vec!["the third-party family (harness/src/third_party.rs) is written the way /repo/tests/custom_packet.rs shows a downstream user doing it"],
        legs: vec![
            super::parse::len_leg(tier, c19_len_oracle),
            Box::new(RandomLeg { name: "random-third-party", cases: tier.pick(960_000, 9_000_000), make: Box::new(third_case), oracle: c19_oracle }),
            Box::new(SweepLeg {
                name: "helpers-padding-x-count-x-family",
                n: 256 * 32 * 6,
                at: Box::new(|i| ThirdCase::Helper { padding: (i % 256) as u8, count: ((i / 256) % 32) as u8, family: (i / 8192) as usize, words: 64 + (i % 7) as usize, fill: 0x6b }),
                oracle: c19_oracle,
                exhaustive: true,
            }),
            Box::new(SweepLeg {
                name: "helpers-buffer-sizes",
                n: 1024 + 4,
                at: Box::new(|i| ThirdCase::Helper { padding: [0u8, 4, 252, 8][(i % 4) as usize], count: (i % 32) as u8, family: (i % 6) as usize, words: if i < 1024 { i as usize + 1 } else { 65536 }, fill: 0x11 }),
                oracle: c19_oracle,
                exhaustive: true,
            }),
            Box::new(SweepLeg {
                name: "custom-x-every-padding",
                n: 64 * 6 * 2,
                at: Box::new(|i| {
                    let family = ((i / 64) % 6) as usize;
                    let min = CUSTOM_FAMILY[family].1;
                    let spec = PacketSpec::Custom(CustomSpec {
                        family,
                        count: (i % 32) as u8,
                        ssrc: if min >= 8 { 0x0102_0304 } else { 0 },
                        fixed: if min >= 8 { (0..min - 8).map(|k| k as u8).collect() } else { vec![] },
                        tail: vec![0x77; 4 * (i % 3) as usize],
                        padding: ((i % 64) * 4) as u8,
                    });
                    let neighbours = if i >= 384 { vec![super::build::kind_template(1), super::build::kind_template(3)] } else { vec![] };
                    ThirdCase::Packet { spec, neighbours, position: 2 }
                }),
                oracle: c19_oracle,
                exhaustive: true,
            }),
        ],
    }
}
