//! C13 (padding is transparent to packet contents, metamorphic) and C15 (FCI decoding of
//! arbitrary control information against reference decoders).

use crate::drive::*;
use crate::gen;
use crate::model::*;
use crate::run::*;
use crate::{ensure, fail};
use proptest::prelude::*;
use rtcp_types::prelude::*;
use rtcp_types::*;
use serde::{Deserialize, Serialize};
use serde_json::Value;

// ---------------------------------------------------------------------------------------------
// C13
// ---------------------------------------------------------------------------------------------

#[derive(Clone, Debug, PartialEq, Eq, Hash, Serialize, Deserialize)]
pub struct PadCase {
    /// unpadded, representable
    pub spec: PacketSpec,
    /// base packet from the crate's builder instead of the independent encoder
    pub from_builder: bool,
    /// SR / RR only: this many words of profile-specific extension (RFC 3550 6.4.3) follow the report blocks
    #[serde(default)]
    pub extension_words: u8,
}

fn strip_padding(v: &mut Value) -> Value {
    v.as_object_mut().and_then(|o| o.remove("padding")).unwrap_or(Value::Null)
}

pub(crate) fn c13_oracle(c: &PadCase, st: &mut Stats) -> Verdict {
    let name = c.spec.long_name();
    st.label(&name);
    st.label(if c.from_builder { "base from the crate's builder" } else { "base from the reference encoder" });
    let mut base = if c.from_builder { build_valid(&c.spec, How::default(), "C13")? } else { ref_encode(&c.spec) };
    if c.extension_words > 0 && matches!(c.spec, PacketSpec::Sr(_) | PacketSpec::Rr(_)) {
        // a sender / receiver report may carry a profile-specific extension behind its report blocks
        st.label("SR/RR with a profile-specific extension");
        for k in 0..4 * c.extension_words as usize {
            base.push(0xe0 | (k as u8 & 0x0f));
        }
        let w = (base.len() / 4 - 1) as u16;
        base[2] = (w >> 8) as u8;
        base[3] = w as u8;
    }
    let mut base_obs = observe_packet(&base).map_err(|f| Failure::new(format!("C13:{name}:base:{}", f.signature), f.detail))?;
    if base_obs.get("error").is_some() {
        st.label("base packet rejected (C09's business); skipped");
        return Ok(());
    }
    let base_pad = strip_padding(&mut base_obs);
    ensure!(base_pad.is_null(), format!("C13:{name}:base-reports-padding"), "unpadded packet reports padding {base_pad}");
    // a base whose FCI the crate refuses to decode (an empty SLI / FIR list: at least one entry is required)
    // is not a well-formed packet as far as its control information goes: the FCI is left out of the comparison
    let fci_undecodable = base_obs.get("fci").map(|f| f.get("error").is_some()).unwrap_or(false);
    if fci_undecodable {
        st.label("base FCI not decodable (outside the domain): FCI not compared");
        if let Some(o) = base_obs.as_object_mut() {
            o.remove("fci");
        }
    }
    // accessors that observe_packet does not report: encoded lengths and string views of SDES chunks / items
    let sdes_extra = |b: &[u8]| -> Result<Option<Vec<(usize, Vec<(usize, Option<String>)>)>>, Failure> {
        if !matches!(c.spec, PacketSpec::Sdes(_)) {
            return Ok(None);
        }
        no_panic("Sdes length / string accessors", || {
            Sdes::parse(b).ok().map(|s| s.chunks().map(|ch| (ch.length(), ch.items().map(|it| (it.length(), it.get_value_string().ok())).collect())).collect())
        })
    };
    let base_extra = sdes_extra(&base)?;
    if super::common::has_variable_content(&c.spec) {
        st.nontrivial();
    }
    for n in (4..=252u8).step_by(4) {
        let padded = ref_pad(&base, n);
        let mut obs = observe_packet(&padded).map_err(|f| Failure::new(format!("C13:{name}:{}", f.signature), format!("padding {n}: {}; packet {}", f.detail, hex(&padded))))?;
        if let Some(e) = obs.get("error") {
            fail!(format!("C13:{name}:padded-packet-rejected"), "the parser accepts the packet but rejects it with {n} bytes of RFC 3550 padding: {e}; padded packet {}", hex(&padded));
        }
        let pad = strip_padding(&mut obs);
        ensure!(pad == serde_json::json!(n), format!("C13:{name}:padding-accessor"), "padding() = {pad} for {n} bytes of padding; packet {}", hex(&padded));
        if fci_undecodable {
            if let Some(o) = obs.as_object_mut() {
                o.remove("fci");
            }
        }
        let extra = sdes_extra(&padded)?;
        ensure!(extra == base_extra, format!("C13:{name}:content-changed:sdes-lengths-or-strings"), "with {n} bytes of padding the chunk / item lengths or value strings differ: {extra:?} vs unpadded {base_extra:?}; padded {}", hex(&padded));
        if let Some((short, detail)) = diff(&base_obs, &obs) {
            fail!(format!("C13:{name}:content-changed{short}"), "with {n} bytes of padding: {detail}; unpadded {} padded {}", hex(&base), hex(&padded));
        }
    }
    Ok(())
}

fn pad_case() -> BoxedStrategy<PadCase> {
    (gen::leaf_spec(false, false), any::<bool>(), prop_oneof![3 => Just(0u8), 1 => 1u8..=7, 1 => Just(6u8)])
        .prop_filter_map("unknown packets have no content accessors", |(mut spec, from_builder, extension_words)| {
            if matches!(spec, PacketSpec::Unknown(_)) {
                return None;
            }
            spec.set_padding(0);
            Some(PadCase { spec, from_builder, extension_words })
        })
        .boxed()
}

pub fn c13(tier: Tier) -> Check {
    Check {
        property: "C13",
        rule: "cases = well-formed unpadded packets of every type with content accessors (SR, RR, SDES, BYE, APP, transport/payload feedback with each FCI), from the independent encoder and from the crate's builders, \
               x every padding n in {4,8,..,252} (all 63 swept per base packet); ref_pad sets P, enlarges the length field, appends n-1 zeros and n; \
               oracle (metamorphic): same parser accepts, padding() == Some(n), every content accessor (report blocks, chunks/items, sources/reason, payload, SSRCs, decoded FCI entries) returns what it returns on the unpadded packet; \
               non-trivial = base packet has variable content",
        assumptions: vec![],
        legs: vec![
            Box::new(RandomLeg { name: "random-packets-x-63-paddings", cases: tier.pick(48_000, 600_000), make: Box::new(pad_case), oracle: c13_oracle }),
            Box::new(SweepLeg {
                name: "every-kind-template",
                n: 2 * 11,
                at: Box::new(|i| {
                    let mut spec = super::build::kind_template((i / 2) as usize);
                    spec.set_padding(0);
                    PadCase { spec, from_builder: i % 2 == 1, extension_words: 0 }
                }),
                oracle: c13_oracle,
                exhaustive: true,
            }),
            Box::new(SweepLeg {
                name: "bye-reason-lengths",
                n: 256 * 2,
                at: Box::new(|i| PadCase {
                    spec: PacketSpec::Bye(ByeSpec { sources: if i >= 256 { vec![1, 2] } else { vec![] }, reason: Some("x".repeat((i % 256) as usize)), padding: 0 }),
                    from_builder: false,
                    extension_words: 0,
                }),
                oracle: c13_oracle,
                exhaustive: true,
            }),
        ],
    }
}

// ---------------------------------------------------------------------------------------------
// C15
// ---------------------------------------------------------------------------------------------

#[derive(Clone, Debug, PartialEq, Eq, Hash, Serialize, Deserialize)]
pub struct FciCase {
    pub transport: bool,
    pub format: u8,
    pub fci: Bytes,
    pub padding: u8,
    /// hand the bytes to `F::parse` directly (any length) instead of wrapping them in a packet
    pub raw: bool,
}

#[derive(Clone, Copy, PartialEq, Eq, Debug)]
enum F {
    Nack,
    Pli,
    Sli,
    Rpsi,
    Fir,
}

impl F {
    fn home(self) -> (bool, u8) {
        match self {
            F::Nack => (true, 1),
            F::Pli => (false, 1),
            F::Sli => (false, 2),
            F::Rpsi => (false, 3),
            F::Fir => (false, 4),
        }
    }
    fn name(self) -> &'static str {
        match self {
            F::Nack => "Nack",
            F::Pli => "Pli",
            F::Sli => "Sli",
            F::Rpsi => "Rpsi",
            F::Fir => "Fir",
        }
    }
}

/// compare what a successfully parsed FCI yields with the reference decoding of `fci`
fn check_nack(n: &Nack, fci: &[u8], st: &mut Stats) -> Verdict {
    let want = ref_nack_decode(fci);
    let got: Vec<u16> = no_panic("Nack::entries", || n.entries().take(want.len() + 40).collect())?;
    if !want.is_empty() {
        st.nontrivial();
    }
    ensure!(got == want, "C15:Nack:entries", "entries() = {got:?}, RFC 4585 decoding of {} = {want:?}", hex(fci));
    let salt = fci.iter().fold(7u64, |h, x| h.wrapping_mul(0x100_0000_01b3).wrapping_add(*x as u64));
    no_panic("Nack::entries iterator protocol", || super::common::iter_protocol("Nack::entries", "C15", || n.entries(), |x| x, &want, salt, false))??;
    Ok(())
}

fn check_fir(f: &Fir, fci: &[u8], st: &mut Stats) -> Verdict {
    let want = ref_fir_decode(fci);
    let got: Vec<(u32, u8)> = no_panic("Fir::entries", || f.entries().take(want.len() + 4).map(|e| (e.ssrc(), e.sequence())).collect())?;
    if !want.is_empty() {
        st.nontrivial();
    }
    ensure!(got == want, "C15:Fir:entries", "entries() = {got:?}, RFC 5104 decoding of {} = {want:?}", hex(fci));
    let salt = fci.iter().fold(11u64, |h, x| h.wrapping_mul(0x100_0000_01b3).wrapping_add(*x as u64));
    no_panic("Fir::entries iterator protocol", || super::common::iter_protocol("Fir::entries", "C15", || f.entries(), |e| (e.ssrc(), e.sequence()), &want, salt, false))??;
    Ok(())
}

fn check_sli(s: &Sli, fci: &[u8], st: &mut Stats) -> Verdict {
    let want = ref_sli_decode(fci);
    let dbg: Vec<String> = no_panic("Sli::lost_macroblocks", || s.lost_macroblocks().take(want.len() + 4).map(|e| format!("{e:?}")).collect())?;
    // entries are read through the calibrated Debug view (drive::sli_view); with an opaque Debug they are
    // compared with the entry the crate decodes from the reference word of the expected values
    let got: Vec<serde_json::Value> = dbg.iter().map(|d| sli_observed(d)).collect();
    if !want.is_empty() {
        st.nontrivial();
    }
    st.label_if(matches!(sli_view(), SliView::Opaque), "SLI entries compared through an opaque Debug text");
    let want_o: Vec<serde_json::Value> = want.iter().map(|(a, n, p)| sli_expected(*a, *n, *p)).collect();
    ensure!(got == want_o, "C15:Sli:entries", "lost_macroblocks() = {dbg:?}, RFC 4585 decoding of {} = {want:?}", hex(fci));
    let salt = fci.iter().fold(13u64, |h, x| h.wrapping_mul(0x100_0000_01b3).wrapping_add(*x as u64));
    no_panic("Sli::lost_macroblocks iterator protocol", || {
        super::common::iter_protocol("Sli::lost_macroblocks", "C15", || s.lost_macroblocks(), |e| sli_observed(&format!("{e:?}")), &want_o, salt, false)
    })??;
    Ok(())
}

fn check_rpsi(r: &Rpsi, fci: &[u8], st: &mut Stats) -> Verdict {
    let pt = no_panic("Rpsi::payload_type", || r.payload_type())?;
    let (data, ignored) = no_panic("Rpsi::bit_string", || {
        let (d, i) = r.bit_string();
        (d.to_vec(), i)
    })?;
    match ref_rpsi_decode(fci) {
        None => {
            st.label("either-zone: RPSI PB larger than the bit string");
        }
        Some((wpt, wbits)) => {
            if !wbits.is_empty() {
                st.nontrivial();
            }
            ensure!(pt == wpt, "C15:Rpsi:payload_type", "payload_type() = {pt}, wire {wpt}; fci {}", hex(fci));
            ensure!(ignored <= 8, "C15:Rpsi:bit_string-ignored-bits-exceed-the-last-byte", "bit_string() = ({}, {ignored}): documented as the number of bits to remove from the last byte; fci {}", hex(&data), hex(fci));
            let got = bits_of(&data, ignored);
            ensure!(got.as_ref() == Some(&wbits), "C15:Rpsi:bit_string", "bit_string() = ({}, {ignored}) = {:?} bits, RFC 4585 gives {} bits; fci {}", hex(&data), got.map(|b| b.len()), wbits.len(), hex(fci));
            // zero-copy: the returned slice lies inside the FCI
            let _ = data;
        }
    }
    Ok(())
}

pub(crate) fn c15_oracle(c: &FciCase, st: &mut Stats) -> Verdict {
    let fci_in = &c.fci.0[..];
    if c.raw {
        st.label("raw F::parse");
        if let Ok(n) = no_panic("Nack::parse", || <Nack as FciParser>::parse(fci_in))? {
            check_nack(&n, fci_in, st)?;
        }
        if let Ok(f) = no_panic("Fir::parse", || <Fir as FciParser>::parse(fci_in))? {
            check_fir(&f, fci_in, st)?;
        }
        if let Ok(s) = no_panic("Sli::parse", || <Sli as FciParser>::parse(fci_in))? {
            check_sli(&s, fci_in, st)?;
        }
        if let Ok(r) = no_panic("Rpsi::parse", || <Rpsi as FciParser>::parse(fci_in))? {
            check_rpsi(&r, fci_in, st)?;
        }
        let p = no_panic("Pli::parse", || <Pli as FciParser>::parse(fci_in).is_ok())?;
        ensure!(!p || fci_in.is_empty(), "C15:Pli:accepted-non-empty-body", "Pli::parse accepted {}", hex(fci_in));
        return Ok(());
    }
    // assemble the packet
    let mut fci = fci_in.to_vec();
    while fci.len() % 4 != 0 {
        fci.push(0);
    }
    let mut b = vec![0x80 | (c.format & 31), if c.transport { 205 } else { 206 }, 0, 0, 0x11, 0x22, 0x33, 0x44, 0x55, 0x66, 0x77, 0x88];
    b.extend_from_slice(&fci);
    let b = if c.padding > 0 { ref_pad(&b_with_len(b), c.padding) } else { b_with_len(b) };
    st.label(&format!("{}:fmt{}", if c.transport { "TFB" } else { "PFB" }, if c.format <= 5 { c.format.to_string() } else { ">5".into() }));
    st.label_if(c.padding > 0, "padded");
    macro_rules! each {
        ($fb:expr) => {{
            let fb = $fb;
            for f in [F::Nack, F::Pli, F::Sli, F::Rpsi, F::Fir] {
                let matches = f.home() == (c.transport, c.format & 31);
                macro_rules! gate {
                    ($r:expr) => {{
                        let r = $r;
                        if !matches {
                            ensure!(
                                r.is_err(),
                                format!("C15:gating:{}", f.name()),
                                "parse_fci::<{}> succeeded on a {} feedback packet with format {}; packet {}",
                                f.name(),
                                if c.transport { "transport" } else { "payload" },
                                c.format & 31,
                                hex(&b)
                            );
                        }
                        r
                    }};
                }
                match f {
                    F::Nack => {
                        if let Ok(x) = gate!(no_panic("parse_fci::<Nack>", || fb.parse_fci::<Nack>())?) {
                            st.label("decoded:Nack");
                            check_nack(&x, &fci, st)?;
                        }
                    }
                    F::Pli => {
                        if gate!(no_panic("parse_fci::<Pli>", || fb.parse_fci::<Pli>())?).is_ok() {
                            st.label("decoded:Pli");
                            ensure!(fci.is_empty(), "C15:Pli:accepted-non-empty-body", "parse_fci::<Pli> accepted the body {}", hex(&fci));
                        }
                    }
                    F::Sli => {
                        if let Ok(x) = gate!(no_panic("parse_fci::<Sli>", || fb.parse_fci::<Sli>())?) {
                            st.label("decoded:Sli");
                            check_sli(&x, &fci, st)?;
                        }
                    }
                    F::Rpsi => {
                        if let Ok(x) = gate!(no_panic("parse_fci::<Rpsi>", || fb.parse_fci::<Rpsi>())?) {
                            st.label("decoded:Rpsi");
                            check_rpsi(&x, &fci, st)?;
                        }
                    }
                    F::Fir => {
                        if let Ok(x) = gate!(no_panic("parse_fci::<Fir>", || fb.parse_fci::<Fir>())?) {
                            st.label("decoded:Fir");
                            check_fir(&x, &fci, st)?;
                        }
                    }
                }
            }
        }};
    }
    if c.transport {
        match no_panic("TransportFeedback::parse", || TransportFeedback::parse(&b))? {
            Ok(fb) => each!(fb),
            // C15 speaks about packets the parser accepts; acceptance of well-formed packets is C09's and C05's business
            Err(_) => st.label("feedback packet rejected by the packet parser (outside the domain)"),
        }
    } else {
        match no_panic("PayloadFeedback::parse", || PayloadFeedback::parse(&b))? {
            Ok(fb) => each!(fb),
            // C15 speaks about packets the parser accepts; acceptance of well-formed packets is C09's and C05's business
            Err(_) => st.label("feedback packet rejected by the packet parser (outside the domain)"),
        }
    }
    Ok(())
}

fn b_with_len(mut b: Vec<u8>) -> Vec<u8> {
    let w = (b.len() / 4 - 1) as u16;
    b[2] = (w >> 8) as u8;
    b[3] = w as u8;
    b
}

fn fci_case() -> BoxedStrategy<FciCase> {
    (any::<bool>(), prop_oneof![5 => 1u8..=4, 1 => 0u8..=31], gen::fci_body(), prop_oneof![5 => Just(0u8), 1 => gen::padding_ok()], prop_oneof![3 => Just(false), 1 => Just(true)], any::<u8>())
        .prop_map(|(transport, format, fci, padding, raw, bias)| {
            // bias the kind towards the home of the format so that decoding (not just gating) runs
            let transport = if bias % 4 != 0 { format == 1 && bias % 2 == 0 } else { transport };
            FciCase { transport, format, fci: Bytes(fci), padding, raw }
        })
        .boxed()
}

fn scramble(i: u64) -> u32 {
    // a bijection of u32 restricted to the first N indices: distinct words, spread over the space
    (i as u32).wrapping_mul(0x9e37_79b1).rotate_left(13) ^ 0x5bd1_e995
}

/// FCI lists whose byte offsets no longer fit 16 bits: NACK / SLI beyond 16384 words, FIR beyond 8192 entries,
/// up to the largest list one packet can carry; raw `F::parse` and inside a feedback packet
fn long_lists() -> Vec<FciCase> {
    let mut v = Vec::new();
    let pattern = |words: usize, stride: u32| -> Vec<u8> {
        let mut b = Vec::with_capacity(4 * words);
        for i in 0..words as u32 {
            b.extend_from_slice(&(i.wrapping_mul(stride) ^ 0x0001_8001).to_be_bytes());
        }
        b
    };
    for words in [16383usize, 16384, 16385, 16386, 32768, 65533] {
        for raw in [true, false] {
            v.push(FciCase { transport: true, format: 1, fci: Bytes(pattern(words, 0x0011_0003)), padding: 0, raw }); // NACK
            v.push(FciCase { transport: false, format: 2, fci: Bytes(pattern(words, 0x0004_2041)), padding: 0, raw }); // SLI
        }
    }
    for entries in [8191usize, 8192, 8193, 16384, 32766] {
        for raw in [true, false] {
            v.push(FciCase { transport: false, format: 4, fci: Bytes(pattern(2 * entries, 0x0101_0101)), padding: if raw { 0 } else { 4 }, raw });
        }
    }
    v
}

pub fn c15(tier: Tier) -> Check {
    let sli_random: u64 = tier.pick(1 << 20, 1 << 24);
    Check {
        property: "C15",
        rule: "cases = feedback packets assembled by the harness: kind x format 0..=31 x arbitrary FCI bytes (+ optional padding), and raw F::parse on bodies of any length; sweeps: the 64 kind x format gating combinations \
               x 5 FCI types; single NACK words (all 65536 masks x 8 PIDs, all PIDs x 8 masks); SLI words (each 13/13/6-bit field exhaustively against 4 backgrounds + 2^20 (quick) / 2^24 (thorough) distinct scrambled words); \
               RPSI PB 0..=255 x lengths 4..=16; oracle: parse_fci::<F> Ok only if kind and format are F's; then NACK == per word PID, PID+k (mod 2^16) for set bits ascending; FIR (be32, byte 4) per 8 bytes; \
               SLI (13,13,6) per word (via Debug); RPSI payload type and bit string as bits (PB larger than the string: either-zone); PLI Ok => empty body; non-trivial = decoded >= 1 entry/bit",
        assumptions: vec!["the statement gives an only-if for success: a matching kind/format is not required to decode (C05 requires it for built packets)"],
        legs: vec![
            Box::new(ListLeg { name: "lists-beyond-64KiB", cases: long_lists(), oracle: c15_oracle }),
            Box::new(RandomLeg { name: "random-fci", cases: tier.pick(600_000, 8_000_000), make: Box::new(fci_case), oracle: c15_oracle }),
            Box::new(SweepLeg {
                name: "gating-kind-x-format",
                n: 2 * 32 * 3,
                at: Box::new(|i| FciCase {
                    transport: i % 2 == 0,
                    format: ((i / 2) % 32) as u8,
                    fci: Bytes(match i / 64 {
                        0 => vec![],
                        1 => vec![0x08, 0x01, 0xff, 0x00, 0, 0, 0, 1],
                        _ => vec![0; 16],
                    }),
                    padding: 0,
                    raw: false,
                }),
                oracle: c15_oracle,
                exhaustive: true,
            }),
            Box::new(SweepLeg {
                name: "single-nack-words",
                n: 65536 * 8 * 2,
                at: Box::new(|i| {
                    let (pid, mask) = if i < 65536 * 8 {
                        ([0u16, 1, 0x7fff, 0x8000, 0xfff0, 0xfffe, 0xffff, 0x1234][(i / 65536) as usize], (i % 65536) as u16)
                    } else {
                        let k = i - 65536 * 8;
                        ((k % 65536) as u16, [0u16, 1, 0x8000, 0xffff, 0x8001, 0x00ff, 0xff00, 0x5555][(k / 65536) as usize])
                    };
                    FciCase { transport: true, format: 1, fci: Bytes(vec![(pid >> 8) as u8, pid as u8, (mask >> 8) as u8, mask as u8]), padding: 0, raw: i % 16 == 7 }
                }),
                oracle: c15_oracle,
                exhaustive: true,
            }),
            Box::new(SweepLeg {
                name: "sli-words",
                n: 4 * (8192 + 8192 + 64) + sli_random,
                at: Box::new(move |i| {
                    let per = 8192 + 8192 + 64;
                    let w: u32 = if i < 4 * per {
                        let bg = [0u32, 0xffff_ffff, 0xaaaa_aaaa, 0x5555_5555][(i / per) as usize];
                        let k = i % per;
                        if k < 8192 {
                            bg & !(0x1fff << 19) | (k as u32) << 19
                        } else if k < 16384 {
                            bg & !(0x1fff << 6) | ((k - 8192) as u32) << 6
                        } else {
                            bg & !0x3f | (k - 16384) as u32
                        }
                    } else {
                        scramble(i - 4 * per)
                    };
                    FciCase { transport: false, format: 2, fci: Bytes(w.to_be_bytes().to_vec()), padding: 0, raw: false }
                }),
                oracle: c15_oracle,
                exhaustive: false,
            }),
            Box::new(SweepLeg {
                name: "rpsi-pb-x-length",
                n: 256 * 4 * 2,
                at: Box::new(|i| {
                    let pb = (i % 256) as u8;
                    let len = [4usize, 8, 12, 16][((i / 256) % 4) as usize];
                    let mut fci: Vec<u8> = (0..len).map(|k| 0xa5u8.wrapping_add((k as u8).wrapping_mul(29))).collect();
                    fci[0] = pb;
                    fci[1] = if i >= 1024 { 0xff } else { 0x2a };
                    FciCase { transport: false, format: 3, fci: Bytes(fci), padding: if i % 5 == 0 { 4 } else { 0 }, raw: i % 7 == 3 }
                }),
                oracle: c15_oracle,
                exhaustive: true,
            }),
        ],
    }
}

