//! C06 (announced size == written size), C16 (accept exactly the representable),
//! C17 (define every byte, touch nothing else), C14 (compound == concatenation).

use super::build::{kind_template, KIND_TEMPLATES};
use super::common::*;
use crate::drive::*;
use crate::model::*;
use crate::run::*;
use crate::{ensure, fail, gen};
use proptest::prelude::*;

// ---------------------------------------------------------------------------------------------
// C06
// ---------------------------------------------------------------------------------------------

pub fn splitmix(x: u64) -> u64 {
    let mut z = x.wrapping_add(0x9e37_79b9_7f4a_7c15);
    z = (z ^ (z >> 30)).wrapping_mul(0xbf58_476d_1ce4_e5b9);
    z = (z ^ (z >> 27)).wrapping_mul(0x94d0_49bb_1331_11eb);
    z ^ (z >> 31)
}

fn c06_plan(n: Option<usize>, salt: u64) -> Vec<(usize, bool)> {
    match n {
        None => vec![(0, false), (64, false), (4096, true)],
        Some(n) if n <= 160 => (0..=n + 8).map(|l| (l, l % 2 == 0)).collect(),
        Some(n) => {
            let a = splitmix(salt);
            let b = splitmix(a);
            let mut v = vec![0, 1, n - 1, n, n + 1, n + 1 + (a % 300) as usize, (b % n as u64) as usize, n - 4, n + 4];
            v.sort();
            v.dedup();
            v.into_iter().map(|l| (l, l % 2 == 0)).collect()
        }
    }
}

fn judge_sizes(name: &str, whole_packet: bool, o: &BuildObs) -> Verdict {
    let size = match &o.size {
        Err(c) => fail!(format!("C06:{name}:panic:calculate_size"), "calculate_size panicked: {}", c.message),
        Ok(s) => s,
    };
    match size {
        Ok(n) => {
            let n = *n;
            ensure!(!whole_packet || n % 4 == 0, format!("C06:{name}:size-not-multiple-of-4"), "calculate_size = Ok({n})");
            for w in &o.writes {
                match &w.result {
                    Err(c) => fail!(
                        format!("C06:{name}:panic:write_into"),
                        "calculate_size = Ok({n}); write_into(buffer of {}) panicked: {}",
                        w.buf_len,
                        c.message
                    ),
                    Ok(r) => {
                        if w.buf_len >= n {
                            ensure!(
                                *r == Ok(n),
                                format!("C06:{name}:write-disagrees-with-size"),
                                "calculate_size = Ok({n}); write_into(buffer of {}) = {:?}",
                                w.buf_len,
                                r
                            );
                        } else {
                            ensure!(
                                *r == Err(WErr::OutputTooSmall(n)),
                                format!("C06:{name}:short-buffer-not-OutputTooSmall"),
                                "calculate_size = Ok({n}); write_into(buffer of {}) = {:?}, want Err(OutputTooSmall({n}))",
                                w.buf_len,
                                r
                            );
                        }
                    }
                }
            }
        }
        Err(e) => {
            for w in &o.writes {
                match &w.result {
                    Err(c) => fail!(format!("C06:{name}:panic:write_into"), "calculate_size = Err({e:?}); write_into panicked: {}", c.message),
                    Ok(r) => ensure!(
                        *r == Err(e.clone()),
                        format!("C06:{name}:write-error-differs"),
                        "calculate_size = Err({e:?}) but write_into(buffer of {}) = {:?}",
                        w.buf_len,
                        r
                    ),
                }
            }
        }
    }
    Ok(())
}

pub(crate) fn c06_oracle(c: &BuildCase, st: &mut Stats) -> Verdict {
    let name = c.spec.long_name();
    st.label(&name);
    let salt = c.salt;
    let o = observe_build(&c.spec, c.how, |n| c06_plan(n, salt));
    let valid = matches!(o.size, Ok(Ok(_)));
    st.label(if valid { "accepted" } else { "rejected" });
    if valid && (any_padding(&c.spec) || has_variable_content(&c.spec)) {
        st.nontrivial();
    }
    if let Ok(Ok(n)) = &o.size {
        st.label_if(*n > 160, "size>160 (sampled buffer lengths)");
    }
    judge_sizes(&name, true, &o)
}

#[derive(Clone, Debug, PartialEq, Eq, Hash, serde::Serialize, serde::Deserialize)]
pub enum PartCase {
    Chunk(ChunkSpec),
    Item(ItemSpec),
    /// an FCI builder used directly as a writer (every FCI builder implements `RtcpPacketWriter`)
    Fci(FciSpec),
}

/// SdesChunkBuilder / SdesItemBuilder have their own `write_into` but a private size function,
/// so n is learnt from `write_into(&mut [])`.
fn observe_part(p: &PartCase) -> BuildObs {
    enum Part<'a> {
        Chunk(rtcp_types::SdesChunkBuilder<'a>),
        Item(rtcp_types::SdesItemBuilder<'a>),
        Fci(FciHolder<'a>),
    }
    fn make(p: &PartCase) -> Part<'_> {
        match p {
            PartCase::Chunk(c) => Part::Chunk(chunk(c)),
            PartCase::Item(i) => Part::Item(item(i)),
            PartCase::Fci(f) => Part::Fci(fci(f)),
        }
    }
    fn write_one(b: &Part<'_>, buf: &mut [u8]) -> Result<Result<usize, WErr>, Caught> {
        match b {
            Part::Chunk(b) => {
                step("SdesChunkBuilder::write_into");
                guard(|| werr(b.write_into(buf)))
            }
            Part::Item(b) => {
                step("SdesItemBuilder::write_into");
                guard(|| werr(b.write_into(buf)))
            }
            Part::Fci(h) => {
                step("FCI builder::write_into");
                guard(|| werr(h.write_into(buf)))
            }
        }
    }
    // one builder object for all the writes below (the second use of an object: whatever it remembers from a
    // failed or an earlier write must not show), or a fresh one per write - chosen by the announced size
    let shared = make(p);
    let probe = write_one(&shared, &mut []);
    let size = match &probe {
        Ok(Err(WErr::OutputTooSmall(n))) => Ok(Ok(*n)),
        Ok(Ok(n)) => Ok(Ok(*n)),
        Ok(Err(e)) => Ok(Err(e.clone())),
        Err(c) => Err(c.clone()),
    };
    let reuse = matches!(&size, Ok(Ok(n)) if (n / 4) % 2 == 0);
    let lens: Vec<usize> = match &size {
        Ok(Ok(n)) if *n <= 600 => (0..=n + 8).collect(),
        Ok(Ok(n)) => vec![0, 1, n - 1, *n, n + 1, n + 8],
        _ => vec![0, 64, 1024],
    };
    let mut writes = Vec::new();
    for l in lens {
        let mut buf = prefill(l, l % 2 == 0);
        let result = if reuse { write_one(&shared, &mut buf) } else { write_one(&make(p), &mut buf) };
        writes.push(WriteObs { buf_len: l, which: l % 2 == 0, result, after: buf });
    }
    BuildObs { size, get_padding: Ok(None), writes }
}

fn item_valid(i: &ItemSpec) -> bool {
    if i.ty == 8 {
        i.prefix.len() + i.value.len() <= 254
    } else {
        i.value.len() <= 255
    }
}

fn part_reference(p: &PartCase) -> (Vec<u8>, bool) {
    match p {
        PartCase::Chunk(c) => (ref_encode_chunk(c), c.items.iter().all(item_valid)),
        PartCase::Item(i) => (ref_encode_item(i), item_valid(i)),
        // FCI bytes are compared inside feedback packets (C07); used directly only sizes are judged
        PartCase::Fci(_) => (Vec::new(), false),
    }
}

pub(crate) fn c06_part_oracle(p: &PartCase, st: &mut Stats) -> Verdict {
    let name = match p {
        PartCase::Chunk(_) => "SdesChunkBuilder",
        PartCase::Item(_) => "SdesItemBuilder",
        PartCase::Fci(f) => match f {
            FciSpec::Nack(_) => "NackBuilder-as-writer",
            FciSpec::Pli => "PliBuilder-as-writer",
            FciSpec::Sli(_) => "SliBuilder-as-writer",
            FciSpec::Rpsi { .. } => "RpsiBuilder-as-writer",
            FciSpec::Fir(_) => "FirBuilder-as-writer",
        },
    };
    st.label(name);
    let o = observe_part(p);
    if matches!(o.size, Ok(Ok(_))) {
        st.nontrivial();
        st.label("accepted");
    } else {
        st.label("rejected");
    }
    judge_sizes(name, false, &o)
}

pub fn part_case(inv: bool) -> BoxedStrategy<PartCase> {
    // FCI builders also implement the writer trait, but C06 / C17 name packet, compound, SDES-chunk and SDES-item
    // builders: `PartCase::Fci` is kept for replay files only and is not generated
    prop_oneof![gen::chunk_spec(inv).prop_map(PartCase::Chunk), gen::item_spec(inv).prop_map(PartCase::Item)].boxed()
}

pub const ITEM_SWEEP_N: u64 = 258 + 7 * 257;

pub fn item_sweep(i: u64) -> PartCase {
    // every value length 0..=257 for a plain item; every (prefix, value) split summing to 250..=256 for PRIV
    if i < 258 {
        PartCase::Item(ItemSpec { ty: 1 + (i % 7) as u8, prefix: vec![], value: "v".repeat(i as usize) })
    } else {
        let k = i - 258;
        let total = 250 + (k / 257) as usize;
        let prefix = ((k % 257) as usize).min(total);
        PartCase::Item(ItemSpec { ty: 8, prefix: vec![0xee; prefix], value: "p".repeat(total - prefix) })
    }
}

/// the configurations of C16's total-size leg (exactly 65536 words, and one word more - which the
/// builders accept, a recorded C16 finding): whatever calculate_size says, write_into must agree with it
pub(crate) fn c06_total_oracle(i: &u64, st: &mut Stats) -> Verdict {
    st.label("packets of 65536 / 65537 words");
    c06_oracle(&total_size_case(*i), st)
}

pub fn c06(tier: Tier) -> Check {
    Check {
        property: "C06",
        rule: "cases = (configuration of any builder kind, valid or not, construction path) x buffer lengths (every length 0..=n+8 when n <= 160, else \
               {0,1,n-4,n-1,n,n+1,n+4,n+random slack,random < n}); oracle: Ok(n) => n%4==0 for whole packets, L>=n => Ok(n) with no unwind, L<n => Err(OutputTooSmall(n)); \
               Err(e) => write_into returns the same e; SDES chunk/item builders via their own write_into (n learnt from an empty buffer). \
               non-trivial = accepted configuration with padding or variable-length content",
        assumptions: vec!["FCI builders are judged only inside a feedback packet builder (they are not packet, compound, chunk or item builders)"],
        legs: vec![
            super::reuse::reuse_leg("C06", tier),
            Box::new(RandomLeg { name: "random-configs", cases: tier.pick(200_000, 3_000_000), make: Box::new(any_build_case), oracle: c06_oracle }),
            Box::new(RandomLeg { name: "valid-configs", cases: tier.pick(150_000, 1_800_000), make: Box::new(valid_build_case), oracle: c06_oracle }),
            Box::new(SweepLeg {
                name: "every-kind-x-every-padding-byte",
                n: 256 * KIND_TEMPLATES as u64,
                at: Box::new(|i| {
                    let mut spec = kind_template((i / 256) as usize);
                    spec.set_padding((i % 256) as u8);
                    BuildCase { spec, how: How { wrap: i % 3 == 1, fb_owned: i % 2 == 1, single_compound: false, owned: i % 4 == 3, probe: i % 5 == 2 }, salt: i }
                }),
                oracle: c06_oracle,
                exhaustive: true,
            }),
            Box::new(SweepLeg {
                name: "rpsi-len-x-bits",
                n: 44 * 10,
                at: Box::new(|i| BuildCase {
                    spec: PacketSpec::Fb(FbSpec {
                        kind: FbKind::Payload,
                        sender: 1,
                        media: 2,
                        fci: FciSpec::Rpsi { pt: 1, data: vec![0x5a; (i % 44) as usize], overrun: (i / 44) as u8 },
                        padding: if i % 3 == 0 { 4 } else { 0 },
                    }),
                    how: How { fb_owned: i % 2 == 0, ..How::default() },
                    salt: i,
                }),
                oracle: c06_oracle,
                exhaustive: true,
            }),
            Box::new(SweepLeg {
                name: "fb-kind-x-fci-pairings",
                n: 2 * 5 * 3,
                at: Box::new(|i| {
                    let kind = if i % 2 == 0 { FbKind::Transport } else { FbKind::Payload };
                    let fci = match (i / 2) % 5 {
                        0 => FciSpec::Nack(vec![1, 2, 30]),
                        1 => FciSpec::Pli,
                        2 => FciSpec::Sli(vec![(1, 2, 3)]),
                        3 => FciSpec::Rpsi { pt: 9, data: vec![1, 2, 3], overrun: 1 },
                        _ => FciSpec::Fir(vec![(5, 6)]),
                    };
                    BuildCase {
                        spec: PacketSpec::Fb(FbSpec { kind, sender: 0, media: 0, fci, padding: [0u8, 4, 3][(i / 10) as usize] }),
                        how: How { fb_owned: i % 4 < 2, wrap: i % 3 == 0, single_compound: false, owned: false, probe: false },
                        salt: i,
                    }
                }),
                oracle: c06_oracle,
                exhaustive: true,
            }),
            Box::new(RandomLeg { name: "sdes-chunk-and-item-builders", cases: tier.pick(100_000, 900_000), make: Box::new(|| part_case(true)), oracle: c06_part_oracle }),
            Box::new(SweepLeg { name: "sdes-item-length-limits", n: ITEM_SWEEP_N, at: Box::new(item_sweep), oracle: c06_part_oracle, exhaustive: true }),
            Box::new(SweepLeg { name: "largest-packets", n: 16, at: Box::new(|i| i), oracle: c06_total_oracle, exhaustive: false }),
        ],
    }
}

// ---------------------------------------------------------------------------------------------
// C07 (continued): SDES chunk / item builders
// ---------------------------------------------------------------------------------------------

pub fn c07_part_oracle(p: &PartCase, st: &mut Stats) -> Verdict {
    let name = match p {
        PartCase::Chunk(_) => "SdesChunkBuilder",
        PartCase::Item(_) => "SdesItemBuilder",
        PartCase::Fci(_) => "FCI builder used as a writer",
    };
    st.label(name);
    let (want, valid) = part_reference(p);
    if !valid {
        st.label("rejected (outside C07's domain)");
        return Ok(());
    }
    st.nontrivial();
    let mut buf = prefill(want.len() + 5, true);
    let r = match p {
        PartCase::Chunk(c) => {
            let b = chunk(c);
            no_panic("SdesChunkBuilder::write_into", || werr(b.write_into(&mut buf)))
        }
        PartCase::Item(i) => {
            let b = item(i);
            no_panic("SdesItemBuilder::write_into", || werr(b.write_into(&mut buf)))
        }
        PartCase::Fci(_) => return Ok(()),
    }
    .map_err(|f| Failure::new(format!("C07:{name}:{}", f.signature), f.detail))?;
    ensure!(r == Ok(want.len()), format!("C07:{name}:length"), "write_into = {r:?}, RFC image has {} bytes", want.len());
    ensure!(buf[..want.len()] == want[..], format!("C07:{name}:bytes"), "wrote {} want {}", hex(&buf[..want.len()]), hex(&want));
    Ok(())
}

// ---------------------------------------------------------------------------------------------
// C16
// ---------------------------------------------------------------------------------------------

fn err_name(e: &WErr) -> String {
    let s = format!("{e:?}");
    s.split(|c: char| !c.is_alphanumeric()).next().unwrap_or("").to_string()
}

/// does `e` truthfully name `rule` with the offending value?
pub fn names_rule(rule: &Rule, e: &WErr) -> bool {
    match (rule, e) {
        (Rule::PaddingNotMultipleOf4(p), WErr::InvalidPadding { padding }) => p == padding,
        (Rule::CountAbove31(c), WErr::CountOutOfRange { count, .. }) => c == count,
        (Rule::SubtypeAbove31(s), WErr::AppSubtypeOutOfRange { subtype, .. }) => s == subtype,
        (Rule::TooManyBlocks(n), WErr::TooManyReportBlocks { count, .. }) => n == count,
        (Rule::TooManySources(n), WErr::TooManySources { count, .. }) => n == count,
        (Rule::TooManyChunks(n), WErr::TooManySdesChunks { count, .. }) => n == count,
        (Rule::CumulativeLost(v), WErr::CumulativeLostTooLarge { value, .. }) => v == value,
        (Rule::AppName, WErr::InvalidName) => true,
        (Rule::PayloadNotAligned(l), WErr::DataLen32bitMultiple(len)) => l == len,
        (Rule::ReasonTooLong(l), WErr::ReasonLenTooLarge { len, .. }) => l == len,
        (Rule::SdesValueTooLong(l), WErr::SdesValueTooLarge { len, .. }) => l == len,
        // "a PRIV prefix plus value above 254 bytes": the offending value may be either part or the sum
        // (with or without the prefix-length octet)
        (Rule::PrivTooLong(p, v), WErr::SdesPrivPrefixTooLarge { len, .. }) => len == p || *len == p + v || *len == p + v + 1,
        (Rule::PrivTooLong(p, v), WErr::SdesValueTooLarge { len, .. }) => len == v || *len == p + v || *len == p + v + 1,
        (Rule::RpsiPayloadType(_), WErr::PayloadTypeInvalid) => true,
        (Rule::RpsiIgnoredBits(_), WErr::PaddingBitsTooLarge) => true,
        (Rule::FciInWrongKind, WErr::FciWrongFeedbackPacketType) => true,
        (Rule::NonLastPadding, WErr::NonLastCompoundPacketPadding) => true,
        // the error vocabulary has no dedicated variant for the total-size rule
        (Rule::TotalSize(_), WErr::OutputTooSmall(_)) => false,
        (Rule::TotalSize(_), _) => true,
        _ => false,
    }
}

fn near_a_limit(p: &PacketSpec) -> bool {
    fn near(n: usize, lim: usize) -> bool {
        n + 1 >= lim && n <= lim + 1
    }
    fn cl(b: &RbSpec) -> bool {
        b.cumulative_lost >= 0x00ff_fffe && b.cumulative_lost <= 0x0100_0001
    }
    p.leaves().iter().any(|l| match l {
        PacketSpec::Sr(s) => near(s.blocks.len(), 31) || s.blocks.iter().any(cl),
        PacketSpec::Rr(s) => near(s.blocks.len(), 31) || s.blocks.iter().any(cl),
        PacketSpec::Sdes(s) => {
            near(s.chunks.len(), 31)
                || s.chunks.iter().any(|c| c.items.iter().any(|i| if i.ty == 8 { near(i.prefix.len() + i.value.len(), 254) } else { near(i.value.len(), 255) }))
        }
        PacketSpec::Bye(s) => near(s.sources.len(), 31) || s.reason.as_ref().map(|r| near(r.len(), 255)).unwrap_or(false),
        PacketSpec::App(s) => near(s.subtype as usize, 31) || near(s.name.len(), 4),
        PacketSpec::Fb(s) => match &s.fci {
            FciSpec::Rpsi { pt, overrun, .. } => near(*pt as usize, 127) || near(*overrun as usize, 8),
            _ => false,
        },
        PacketSpec::Unknown(s) => near(s.count as usize, 31),
        _ => false,
    })
}

pub(crate) fn c16_oracle(c: &BuildCase, st: &mut Stats) -> Verdict {
    if let PacketSpec::Compound(m) = &c.spec {
        if ambiguous(m) {
            // an empty nested compound in last position after a padded sibling: which member is "the last" is not
            // settled (the same class C14 leaves out)
            st.label("excluded:empty-nested-compound-after-padded-sibling");
            return Ok(());
        }
    }
    let name = c.spec.long_name();
    let rules = violations(&c.spec);
    st.label(&name);
    st.label(match rules.len() {
        0 => "violations:0",
        1 => "violations:1",
        2 => "violations:2",
        _ => "violations:3+",
    });
    for r in &rules {
        st.label(&format!("rule:{}", r.short()));
    }
    if !rules.is_empty() || near_a_limit(&c.spec) {
        st.nontrivial();
    }
    let o = observe_build(&c.spec, c.how, |n| match n {
        Some(n) => vec![(n, true)],
        None => vec![(4096, true)],
    });
    let size = match &o.size {
        Err(cg) => fail!(format!("C16:{name}:panic:calculate_size"), "calculate_size panicked: {}", cg.message),
        Ok(s) => s,
    };
    match (size, rules.is_empty()) {
        (Ok(_), true) => {}
        (Ok(n), false) => fail!(
            format!("C16:{name}:accepted-unrepresentable:{}", rules[0].short()),
            "calculate_size = Ok({n}) although the configuration violates {:?}",
            rules
        ),
        (Err(e), true) => fail!(
            format!("C16:{name}:rejected-representable:{}", err_name(e)),
            "calculate_size = Err({e:?}) although the configuration violates no representability rule (RFC image would be {} bytes)",
            ref_size(&c.spec)
        ),
        (Err(e), false) => ensure!(
            rules.iter().any(|r| names_rule(r, e)),
            format!("C16:{name}:wrong-error:{}", err_name(e)),
            "calculate_size = Err({e:?}), which names none of the violated rules {:?} with its offending value",
            rules
        ),
    }
    // write_into must agree
    if let Some(w) = o.writes.first() {
        match (&w.result, size) {
            (Err(cg), _) => fail!(format!("C16:{name}:panic:write_into"), "write_into panicked: {}", cg.message),
            (Ok(Ok(_)), Ok(_)) => {}
            (Ok(Err(e2)), Err(e)) if e2 == e => {}
            (Ok(r), s) => fail!(format!("C16:{name}:write-disagrees"), "calculate_size = {s:?} but write_into = {r:?}"),
        }
    }
    Ok(())
}

/// total-size boundary: exactly 65536 words must be accepted, 65537 words rejected
fn total_size_case(i: u64) -> BuildCase {
    let over = i % 2 == 1; // 65537 words when set
    let k = i / 2;
    let total_words: usize = if over { 65537 } else { 65536 };
    let spec = match k {
        0 => PacketSpec::App(AppSpec { ssrc: 1, subtype: 0, name: "big!".into(), data: vec![0xab; 4 * (total_words - 3)], padding: 0 }),
        1 => PacketSpec::Unknown(UnknownSpec { pt: 210, count: 0, data: vec![0xcd; 4 * (total_words - 1)], padding: 0 }),
        2 => {
            // 31 chunks; a full item is 2+254 = 256 bytes = 64 words; chunk = 1 word ssrc + items + 1 null word
            let body = total_words - 1 - 2 * 31;
            let items_total = body / 64;
            let rem_words = body % 64; // made up with one shorter item in the last chunk
            let mut chunks = Vec::new();
            let mut left = items_total;
            for c in 0..31usize {
                let take = if c == 30 { left } else { (items_total / 31).min(left) };
                left -= take;
                let mut items: Vec<ItemSpec> = (0..take).map(|_| ItemSpec { ty: 7, prefix: vec![], value: "n".repeat(254) }).collect();
                if c == 30 && rem_words > 0 {
                    items.push(ItemSpec { ty: 7, prefix: vec![], value: "n".repeat(4 * rem_words - 2) });
                }
                chunks.push(ChunkSpec { ssrc: c as u32, items });
            }
            PacketSpec::Sdes(SdesSpec { chunks, padding: 0 })
        }
        3 => PacketSpec::Fb(FbSpec { kind: FbKind::Payload, sender: 1, media: 2, fci: FciSpec::Sli((0..total_words - 3).map(|j| ((j % 8000) as u16, 1, 2)).collect()), padding: 0 }),
        4 => PacketSpec::Fb(FbSpec {
            kind: FbKind::Payload,
            sender: 1,
            media: 2,
            fci: FciSpec::Rpsi { pt: 3, data: vec![0x77; 4 * (total_words - 3) - 2], overrun: 0 },
            padding: 0,
        }),
        5 => {
            // FIR: 3 + 2*entries words: 32766 entries = 65535 words (fits); 32767 entries = 65537 words (does not)
            let entries = if over { 32767 } else { 32766 };
            PacketSpec::Fb(FbSpec { kind: FbKind::Payload, sender: 1, media: 0, fci: FciSpec::Fir((0..entries as u32).map(|j| (j.wrapping_mul(2654435761), j as u8)).collect()), padding: 0 })
        }
        6 => PacketSpec::App(AppSpec { ssrc: 1, subtype: 0, name: "pad".into(), data: vec![0xab; 4 * (total_words - 3 - 63)], padding: 252 }),
        _ => PacketSpec::Unknown(UnknownSpec { pt: 0, count: 31, data: vec![0; 4 * (total_words - 1 - 1)], padding: 4 }),
    };
    BuildCase { spec, how: How::default(), salt: 0 }
}

pub(crate) fn c16_total_oracle(i: &u64, st: &mut Stats) -> Verdict {
    st.label(if i % 2 == 1 { "65537 words (must be rejected)" } else { "65536 words or the largest that fits (must be accepted)" });
    c16_oracle(&total_size_case(*i), st)
}

pub fn c16(tier: Tier) -> Check {
    Check {
        property: "C16",
        rule: "cases = possibly unrepresentable configurations of every builder kind (0..=3 simultaneous violations, every limit from both sides) + per-limit sweeps + \
               a total-size leg at exactly 65536 / 65537 words; oracle: calculate_size fails <=> the independent rule list is non-empty, the error names a violated rule \
               with its offending value, write_into agrees; non-trivial = unrepresentable or within +-1 of a limit",
        assumptions: vec![
            "outside the domain (neither outcome demanded): SDES item type 0, SLI fields beyond 13/13/6 bits",
            "for the total-size rule any error other than OutputTooSmall is accepted (the vocabulary has no dedicated variant)",
        ],
        legs: vec![
            Box::new(RandomLeg { name: "random-configs", cases: tier.pick(400_000, 6_000_000), make: Box::new(any_build_case), oracle: c16_oracle }),
            Box::new(SweepLeg {
                name: "every-kind-x-every-padding-byte",
                n: 256 * KIND_TEMPLATES as u64,
                at: Box::new(|i| {
                    let mut spec = kind_template((i / 256) as usize);
                    spec.set_padding((i % 256) as u8);
                    BuildCase { spec, how: How { wrap: i % 3 == 1, fb_owned: i % 2 == 1, single_compound: false, owned: i % 4 == 3, probe: i % 5 == 2 }, salt: 0 }
                }),
                oracle: c16_oracle,
                exhaustive: true,
            }),
            Box::new(SweepLeg { name: "limit-sweeps", n: LIMIT_SWEEP_N, at: Box::new(limit_sweep), oracle: c16_oracle, exhaustive: true }),
            // the case is the index only (each configuration is 256 KiB); `total_size_case` rebuilds it
            Box::new(SweepLeg { name: "total-size-boundary", n: 16, at: Box::new(|i| i), oracle: c16_total_oracle, exhaustive: false }),
        ],
    }
}

const LISTS: u64 = 601; // list sizes 0..=600: past 256+31, where a count truncated to 8 bits aliases a legal one
const LENS: u64 = 801; // text lengths 0..=800: past 512+255
const LIMIT_SWEEP_N: u64 = 256 + 256 + 4 * LISTS + 2 * LENS + 8 * LENS + 256 * 10 + 10 + 8 + 12 + 2 * 81;

/// count/subtype 0..=255; list sizes 0..=600; reason / value lengths 0..=800; PRIV splits; RPSI pt x bits;
/// cumulative lost around 2^24; APP names; payload alignments; APP / unknown payload length x padding residues
fn limit_sweep(mut i: u64) -> BuildCase {
    let mk = |spec| BuildCase { spec, how: How::default(), salt: 0 };
    let rb = |cl: u32| RbSpec { ssrc: 1, fraction_lost: 255, cumulative_lost: cl, ..Default::default() };
    if i < 256 {
        return mk(PacketSpec::Unknown(UnknownSpec { pt: 199, count: i as u8, data: vec![1, 2, 3, 4], padding: 0 }));
    }
    i -= 256;
    if i < 256 {
        return mk(PacketSpec::App(AppSpec { ssrc: 2, subtype: i as u8, name: "nm".into(), data: vec![], padding: 0 }));
    }
    i -= 256;
    if i < LISTS {
        return mk(PacketSpec::Sr(SrSpec { ssrc: 3, blocks: (0..i).map(|_| rb(7)).collect(), ..Default::default() }));
    }
    i -= LISTS;
    if i < LISTS {
        return mk(PacketSpec::Rr(RrSpec { ssrc: 3, blocks: (0..i).map(|_| rb(0x00ff_ffff)).collect(), padding: 0 }));
    }
    i -= LISTS;
    if i < LISTS {
        return mk(PacketSpec::Bye(ByeSpec { sources: (0..i as u32).collect(), reason: None, padding: 0 }));
    }
    i -= LISTS;
    if i < LISTS {
        return mk(PacketSpec::Sdes(SdesSpec { chunks: (0..i as u32).map(|s| ChunkSpec { ssrc: s, items: vec![] }).collect(), padding: 0 }));
    }
    i -= LISTS;
    if i < LENS {
        return mk(PacketSpec::Bye(ByeSpec { sources: vec![9], reason: Some("z".repeat(i as usize)), padding: 0 }));
    }
    i -= LENS;
    if i < LENS {
        return mk(PacketSpec::Sdes(SdesSpec { chunks: vec![ChunkSpec { ssrc: 4, items: vec![ItemSpec { ty: 2, prefix: vec![], value: "y".repeat(i as usize) }] }], padding: 0 }));
    }
    i -= LENS;
    if i < 8 * LENS {
        // PRIV: prefix length from {0, 1, 127, 200, 253, 254, 255, 256} x value length 0..=800
        let prefix = [0usize, 1, 127, 200, 253, 254, 255, 256][(i / LENS) as usize];
        let value = (i % LENS) as usize;
        return mk(PacketSpec::Sdes(SdesSpec {
            chunks: vec![ChunkSpec { ssrc: 5, items: vec![ItemSpec { ty: 8, prefix: vec![0x11; prefix], value: "w".repeat(value) }] }],
            padding: 0,
        }));
    }
    i -= 8 * LENS;
    if i < 256 * 10 {
        let pt = (i % 256) as u8;
        let bits = (i / 256) as u8;
        return mk(PacketSpec::Fb(FbSpec { kind: FbKind::Payload, sender: 1, media: 1, fci: FciSpec::Rpsi { pt, data: vec![0xff, 0x0f], overrun: bits }, padding: 0 }));
    }
    i -= 256 * 10;
    if i < 10 {
        // ignored bits on an empty string
        return mk(PacketSpec::Fb(FbSpec { kind: FbKind::Payload, sender: 1, media: 1, fci: FciSpec::Rpsi { pt: 5, data: vec![], overrun: i as u8 }, padding: 0 }));
    }
    i -= 10;
    if i < 8 {
        let cl = [0x00ff_fffeu32, 0x00ff_ffff, 0x0100_0000, 0x0100_0001, 0xffff_ffff, 0x8000_0000, 0, 0x0200_0000][i as usize];
        return mk(PacketSpec::Rr(RrSpec { ssrc: 6, blocks: vec![rb(1), rb(cl)], padding: 0 }));
    }
    i -= 8;
    if i >= 12 {
        // payload length 0..=8 x padding 0..=8: two unaligned values whose residues cancel must still be rejected
        i -= 12;
        let (data, padding) = ((i % 81) / 9, (i % 81) % 9);
        return mk(if i < 81 {
            PacketSpec::App(AppSpec { ssrc: 8, subtype: 3, name: "resd".into(), data: vec![0x33; data as usize], padding: padding as u8 })
        } else {
            PacketSpec::Unknown(UnknownSpec { pt: 211, count: 1, data: vec![0x44; data as usize], padding: padding as u8 })
        });
    }
    let names: [(&str, usize); 12] =
        [("", 0), ("a", 1), ("ab", 2), ("abc", 3), ("abcd", 4), ("abcde", 5), ("ab\u{e9}", 6), ("\u{e9}", 7), ("\0\0\0\0", 8), ("\x7f", 9), ("\u{80}", 10), ("abcd\0", 11)];
    let (name, data) = names[i as usize % 12];
    mk(PacketSpec::App(AppSpec { ssrc: 7, subtype: 1, name: name.into(), data: vec![0; data], padding: 0 }))
}

// ---------------------------------------------------------------------------------------------
// C17
// ---------------------------------------------------------------------------------------------

pub(crate) fn c17_oracle(c: &BuildCase, st: &mut Stats) -> Verdict {
    let name = c.spec.long_name();
    st.label(&name);
    let a = splitmix(c.salt ^ 0x1111);
    let b = splitmix(a);
    let plan = move |n: Option<usize>| -> Vec<(usize, bool)> {
        let lens: Vec<usize> = match n {
            Some(n) => {
                let mut v = vec![n, n + 1 + (a % 64) as usize, n + 4];
                if n > 0 {
                    v.push((b % n as u64) as usize);
                    v.push(n - 1);
                }
                v
            }
            None => vec![0, 1 + (a % 300) as usize, 4096],
        };
        lens.into_iter().flat_map(|l| [(l, false), (l, true)]).collect()
    };
    let o = observe_build(&c.spec, c.how, plan);
    let size = match &o.size {
        Err(cg) => fail!(format!("C17:{name}:panic:calculate_size"), "calculate_size panicked: {}", cg.message),
        Ok(s) => s.clone(),
    };
    st.label(if size.is_ok() { "accepted" } else { "rejected" });
    for pair in o.writes.chunks(2) {
        let (wa, wb) = (&pair[0], &pair[1]);
        let l = wa.buf_len;
        let (pa, pb) = (prefill(l, false), prefill(l, true));
        let (ra, rb) = match (&wa.result, &wb.result) {
            (Ok(ra), Ok(rb)) => (ra, rb),
            (Err(cg), _) | (_, Err(cg)) => fail!(format!("C17:{name}:panic:write_into"), "write_into(buffer of {l}) panicked: {}", cg.message),
        };
        ensure!(ra == rb, format!("C17:{name}:result-depends-on-buffer-contents"), "write_into(buffer of {l}) = {ra:?} with one prefill and {rb:?} with the other");
        match ra {
            Ok(n) => {
                let n = *n;
                ensure!(n <= l, format!("C17:{name}:reports-more-than-buffer"), "write_into(buffer of {l}) = Ok({n})");
                if l > n {
                    st.nontrivial();
                    st.label("ok-with-slack");
                }
                if let Some(off) = (0..n).find(|&i| wa.after[i] != wb.after[i]) {
                    fail!(
                        format!("C17:{name}:byte-not-defined@{}", region(off, n, c.spec.padding() as usize)),
                        "byte {off} of the {n} reported as written depends on the buffer's previous contents (0x{:02x} vs 0x{:02x}): the writer did not define it; image A {}",
                        wa.after[off],
                        wb.after[off],
                        hex(&wa.after[..n])
                    );
                }
                if let Some(off) = (n..l).find(|&i| wa.after[i] != pa[i] || wb.after[i] != pb[i]) {
                    fail!(format!("C17:{name}:wrote-beyond-n"), "write_into(buffer of {l}) = Ok({n}) but byte {off} beyond n was changed");
                }
            }
            Err(e) => {
                if l > 0 {
                    st.nontrivial();
                    st.label(if size.is_ok() { "too-small-nonempty-buffer" } else { "invalid-config-nonempty-buffer" });
                }
                if let Some(off) = (0..l).find(|&i| wa.after[i] != pa[i] || wb.after[i] != pb[i]) {
                    fail!(
                        format!("C17:{name}:failed-write-modified-buffer"),
                        "write_into(buffer of {l}) = Err({e:?}) but byte {off} of the buffer was changed"
                    );
                }
            }
        }
    }
    Ok(())
}

/// `SdesChunkBuilder::write_into` / `SdesItemBuilder::write_into` are hand-written (not the blanket one): the same
/// three clauses for them - defined bytes, nothing beyond n, nothing at all on failure
pub(crate) fn c17_part_oracle(p: &PartCase, st: &mut Stats) -> Verdict {
    let name = match p {
        PartCase::Chunk(_) => "SdesChunkBuilder",
        PartCase::Item(_) => "SdesItemBuilder",
        PartCase::Fci(_) => return Ok(()),
    };
    st.label(name);
    let write = |buf: &mut [u8]| -> Result<Result<usize, WErr>, Caught> {
        match p {
            PartCase::Chunk(c) => {
                let b = chunk(c);
                step("SdesChunkBuilder::write_into");
                guard(|| werr(b.write_into(buf)))
            }
            PartCase::Item(i) => {
                let b = item(i);
                step("SdesItemBuilder::write_into");
                guard(|| werr(b.write_into(buf)))
            }
            PartCase::Fci(_) => unreachable!(),
        }
    };
    let n = match write(&mut []) {
        Ok(Err(WErr::OutputTooSmall(n))) => Some(n),
        Ok(Ok(n)) => Some(n),
        _ => None,
    };
    let lens: Vec<usize> = match n {
        Some(n) => {
            let mut v = vec![n, n + 1, n + 7];
            if n > 0 {
                v.push(n - 1);
                v.push(n / 2);
            }
            v
        }
        None => vec![0, 9, 600],
    };
    for l in lens {
        let (pa, pb) = (prefill(l, false), prefill(l, true));
        let (mut a, mut b) = (pa.clone(), pb.clone());
        let (ra, rb) = match (write(&mut a), write(&mut b)) {
            (Ok(x), Ok(y)) => (x, y),
            (Err(cg), _) | (_, Err(cg)) => fail!(format!("C17:{name}:panic:write_into"), "write_into(buffer of {l}) panicked: {}", cg.message),
        };
        ensure!(ra == rb, format!("C17:{name}:result-depends-on-buffer-contents"), "write_into(buffer of {l}) = {ra:?} with one prefill and {rb:?} with the other");
        match ra {
            Ok(m) => {
                ensure!(m <= l, format!("C17:{name}:reports-more-than-buffer"), "write_into(buffer of {l}) = Ok({m})");
                st.nontrivial();
                if let Some(off) = (0..m).find(|&i| a[i] != b[i]) {
                    fail!(format!("C17:{name}:byte-not-defined"), "byte {off} of the {m} reported as written depends on the buffer's previous contents; image A {}", hex(&a[..m]));
                }
                if let Some(off) = (m..l).find(|&i| a[i] != pa[i] || b[i] != pb[i]) {
                    fail!(format!("C17:{name}:wrote-beyond-n"), "write_into(buffer of {l}) = Ok({m}) but byte {off} beyond n was changed");
                }
            }
            Err(e) => {
                if l > 0 {
                    st.nontrivial();
                }
                if let Some(off) = (0..l).find(|&i| a[i] != pa[i] || b[i] != pb[i]) {
                    fail!(format!("C17:{name}:failed-write-modified-buffer"), "write_into(buffer of {l}) = Err({e:?}) but byte {off} of the buffer was changed");
                }
            }
        }
    }
    Ok(())
}

pub fn c17(tier: Tier) -> Check {
    Check {
        property: "C17",
        rule: "cases = (configuration valid or not, construction path) x buffer lengths {n, n+slack, n+4, n-1, random < n} (or {0, random, 4096} when rejected) x two prefills \
               that differ in every byte; oracle: Ok(n) => the n bytes are identical under both prefills and bytes beyond n keep their prefill; Err => whole buffer unchanged; no unwind. \
               non-trivial = accepted with slack > 0, or failing with a non-empty buffer",
        assumptions: vec!["two prefills differing in every byte expose any byte the writer leaves undefined"],
        legs: vec![
            super::reuse::reuse_leg("C17", tier),
            Box::new(RandomLeg { name: "random-configs", cases: tier.pick(250_000, 3_600_000), make: Box::new(any_build_case), oracle: c17_oracle }),
            Box::new(RandomLeg { name: "valid-configs", cases: tier.pick(200_000, 2_400_000), make: Box::new(valid_build_case), oracle: c17_oracle }),
            Box::new(RandomLeg { name: "sdes-chunk-and-item-builders", cases: tier.pick(100_000, 900_000), make: Box::new(|| part_case(true)), oracle: c17_part_oracle }),
            Box::new(SweepLeg {
                name: "every-kind-x-every-padding",
                n: 64 * KIND_TEMPLATES as u64,
                at: Box::new(|i| {
                    let mut spec = kind_template((i / 64) as usize);
                    spec.set_padding(((i % 64) * 4) as u8);
                    BuildCase { spec, how: How { wrap: i % 3 == 1, fb_owned: i % 2 == 1, single_compound: i % 7 == 6, owned: i % 4 == 3, probe: i % 5 == 2 }, salt: i }
                }),
                oracle: c17_oracle,
                exhaustive: true,
            }),
            Box::new(SweepLeg {
                name: "app-name-x-bye-reason-alignment",
                n: 5 * 4 + 256 * 2,
                at: Box::new(|i| {
                    if i < 20 {
                        BuildCase {
                            spec: PacketSpec::App(AppSpec { ssrc: 1, subtype: 2, name: "abcd"[..(i % 5) as usize].into(), data: vec![7; 4 * (i / 5) as usize], padding: 0 }),
                            how: How::default(),
                            salt: i,
                        }
                    } else {
                        let k = i - 20;
                        BuildCase {
                            spec: PacketSpec::Bye(ByeSpec { sources: vec![1], reason: Some("q".repeat((k % 256) as usize)), padding: if k >= 256 { 8 } else { 0 } }),
                            how: How::default(),
                            salt: i,
                        }
                    }
                }),
                oracle: c17_oracle,
                exhaustive: true,
            }),
        ],
    }
}

// ---------------------------------------------------------------------------------------------
// C14
// ---------------------------------------------------------------------------------------------

fn emits_nothing(p: &PacketSpec) -> bool {
    matches!(p, PacketSpec::Compound(v) if v.iter().all(emits_nothing))
}

/// an empty nested compound in last position after a padded sibling: "last member" is ambiguous
fn ambiguous(v: &[PacketSpec]) -> bool {
    let trailing_empty = v.iter().rev().take_while(|m| emits_nothing(m)).count();
    if trailing_empty > 0 && trailing_empty < v.len() && v[v.len() - trailing_empty - 1].padding() != 0 {
        return true;
    }
    v.iter().any(|m| matches!(m, PacketSpec::Compound(inner) if ambiguous(inner)))
}

pub(crate) fn c14_oracle(c: &BuildCase, st: &mut Stats) -> Verdict {
    let members = match &c.spec {
        PacketSpec::Compound(m) => m,
        _ => return Ok(()),
    };
    st.label(&format!("members:{}", members.len().min(7)));
    if ambiguous(members) {
        st.label("excluded:empty-nested-compound-after-padded-sibling");
        return Ok(());
    }
    // each member on its own
    let mut member_err: Vec<WErr> = Vec::new();
    let mut sum = 0usize;
    for m in members {
        let o = observe_build(m, c.how, |_| vec![]);
        match o.size {
            Err(cg) => fail!("C14:member:panic:calculate_size", "member {} calculate_size panicked: {}", m.long_name(), cg.message),
            Ok(Ok(n)) => sum += n,
            Ok(Err(e)) => member_err.push(e),
        }
    }
    let nonlast_padding = members.iter().enumerate().any(|(i, m)| i + 1 != members.len() && m.padding() != 0);
    st.label_if(nonlast_padding, "non-last-padding");
    st.label_if(!member_err.is_empty(), "invalid-member");
    let o = observe_build(&c.spec, c.how, |n| match n {
        Some(n) => vec![(n, true)],
        None => vec![(2048, false)],
    });
    let size = match &o.size {
        Err(cg) => fail!("C14:compound:panic:calculate_size", "compound calculate_size panicked: {}", cg.message),
        Ok(s) => s.clone(),
    };
    let should_succeed = member_err.is_empty() && !nonlast_padding;
    match (&size, should_succeed) {
        (Ok(n), false) => fail!(
            if nonlast_padding { "C14:compound:accepted-non-last-padding" } else { "C14:compound:accepted-invalid-member" },
            "compound calculate_size = Ok({n}) although {}",
            if nonlast_padding { "a member other than the last requests padding".to_string() } else { format!("a member is invalid ({:?})", member_err) }
        ),
        (Err(e), true) => fail!("C14:compound:rejected-valid-list", "compound calculate_size = Err({e:?}) although every member is valid and only the last may be padded"),
        (Err(e), false) => {
            ensure!(
                member_err.contains(e) || (nonlast_padding && *e == WErr::NonLastCompoundPacketPadding),
                "C14:compound:wrong-error",
                "compound calculate_size = Err({e:?}); members' own errors {:?}, non-last padding: {nonlast_padding}",
                member_err
            );
            if let Some(w) = o.writes.first() {
                match &w.result {
                    Err(cg) => fail!("C14:compound:panic:write_into", "write_into panicked: {}", cg.message),
                    Ok(r) => ensure!(*r == Err(e.clone()), "C14:compound:write-error-differs", "calculate_size = Err({e:?}), write_into = {r:?}"),
                }
            }
            return Ok(());
        }
        (Ok(_), true) => {}
    }
    let n = size.unwrap();
    ensure!(n == sum, "C14:compound:size-not-sum", "compound size {n}, sum of the members' own sizes {sum}");
    let w = &o.writes[0];
    let bytes = match &w.result {
        Err(cg) => fail!("C14:compound:panic:write_into", "write_into panicked: {}", cg.message),
        Ok(Ok(m)) if *m == n => &w.after[..n],
        Ok(r) => fail!("C14:compound:write-disagrees", "calculate_size = Ok({n}), write_into = {r:?}"),
    };
    // concatenation of the members' individual images, leaf by leaf (FIR entry order is per-instance)
    let leaves = c.spec.leaves();
    if leaves.len() >= 2 {
        st.nontrivial();
    }
    st.label(&format!("leaves:{}", leaves.len().min(9)));
    let mut at = 0usize;
    let mut spans = Vec::new();
    for (i, leaf) in leaves.iter().enumerate() {
        let own = build_valid(leaf, How { single_compound: false, ..c.how }, "C14")?;
        ensure!(at + own.len() <= bytes.len(), "C14:compound:bytes-not-concatenation", "member {i} does not fit: compound {}, member {}", hex(bytes), hex(&own));
        let got = &bytes[at..at + own.len()];
        let same = if matches!(leaf, PacketSpec::Fb(FbSpec { fci: FciSpec::Fir(_), .. })) {
            let pad = leaf.padding() as usize;
            let e = own.len() - pad;
            let mut a: Vec<&[u8]> = got[12..e].chunks(8).collect();
            let mut b: Vec<&[u8]> = own[12..e].chunks(8).collect();
            a.sort();
            b.sort();
            got[..12] == own[..12] && got[e..] == own[e..] && a == b
        } else {
            got == &own[..]
        };
        ensure!(
            same,
            format!("C14:compound:bytes-not-concatenation:{}", leaf.long_name()),
            "member {i} ({}) is {} on its own but {} inside the compound",
            leaf.long_name(),
            hex(&own),
            hex(got)
        );
        spans.push((at, at + own.len()));
        at += own.len();
    }
    ensure!(at == bytes.len(), "C14:compound:bytes-not-concatenation", "compound has {} bytes, members {}", bytes.len(), at);
    if bytes.is_empty() {
        st.label("empty-image");
        return Ok(());
    }
    // parse back
    let parsed = no_panic("Compound::parse", || rtcp_types::Compound::parse(bytes))?;
    let mut it = match parsed {
        Ok(it) => it,
        Err(e) => fail!("C14:compound:parse-rejects-built-compound", "Compound::parse = Err({e:?}) on {}", hex(bytes)),
    };
    for (i, (a, b)) in spans.iter().enumerate() {
        let got = no_panic("Compound::next", || it.next())?;
        let alone = {
            use rtcp_types::prelude::*;
            no_panic("Packet::parse", || rtcp_types::Packet::parse(&bytes[*a..*b]))?
        };
        match (got, alone) {
            (Some(Ok(g)), Ok(al)) => {
                let (dg, da) = (format!("{g:?}"), format!("{al:?}"));
                ensure!(dg == da, "C14:compound:iterated-packet-differs", "member {i}: compound yields {dg}, parsed alone {da}");
            }
            (Some(Err(e)), Err(e2)) if e == e2 => {
                // the member is not parseable on its own either (e.g. an unknown-builder packet that carries
                // the type number of a known kind): equal outcomes; iteration must end here
                st.label("member-unparseable-on-its-own");
                let after = no_panic("Compound::next", || it.next())?;
                ensure!(after.is_none(), "C14:compound:continues-after-error", "iteration continued after the failing member {i}");
                return Ok(());
            }
            (Some(Err(e)), _) => fail!(
                format!("C14:compound:member-unparseable:{}", leaves[i].long_name()),
                "member {i} ({}) parsed from the compound gives Err({e:?}); bytes {}",
                leaves[i].long_name(),
                hex(&bytes[*a..*b])
            ),
            (None, _) => fail!("C14:compound:too-few-packets", "iteration ended before member {i} of {}", spans.len()),
            (Some(Ok(g)), Err(e)) => fail!("C14:compound:alone-unparseable", "member {i} parses inside the compound ({g:?}) but not alone ({e:?})"),
        }
    }
    let extra = no_panic("Compound::next", || it.next())?;
    ensure!(extra.is_none(), "C14:compound:too-many-packets", "iteration yields more than the {} members", spans.len());
    Ok(())
}

fn compound_case() -> BoxedStrategy<BuildCase> {
    (
        prop_oneof![3 => gen::compound_spec(false, true), 2 => gen::compound_spec(false, false), 1 => gen::compound_spec(true, false)],
        gen::how(),
        any::<u64>(),
    )
        .prop_map(|(spec, how, salt)| BuildCase { spec, how: How { single_compound: false, ..how }, salt })
        .boxed()
}

/// member lists far beyond the sizes the random generator draws: more members than any 5- or 8-bit count holds,
/// a compound beyond 64 KiB, deep nesting; the last variants pad a non-last / the last member
fn many_members() -> Vec<BuildCase> {
    let bye = |k: u32| PacketSpec::Bye(ByeSpec { sources: vec![k], reason: None, padding: 0 });
    let rr = |k: u32| PacketSpec::Rr(RrSpec { ssrc: k, blocks: vec![], padding: 0 });
    let app = |words: usize| PacketSpec::App(AppSpec { ssrc: 5, subtype: 1, name: "many".into(), data: vec![0x61; 4 * words], padding: 0 });
    let mut lists: Vec<Vec<PacketSpec>> = Vec::new();
    for n in [31usize, 32, 33, 255, 256, 257, 300] {
        lists.push((0..n).map(|k| if k % 3 == 0 { rr(k as u32) } else { bye(k as u32) }).collect());
    }
    // beyond 64 KiB in total, and one member beyond 64 KiB
    lists.push((0..70).map(|_| app(250)).collect());
    lists.push(vec![rr(1), app(17_000), bye(2)]);
    // a member of exactly the largest packet size (65536 words, length field 0xffff) and one word below it,
    // first / in the middle / last / alone
    for words in [65_533usize, 65_532] {
        lists.push(vec![rr(1), app(words), bye(2)]);
        lists.push(vec![app(words), bye(3)]);
        lists.push(vec![bye(4), app(words)]);
        lists.push(vec![app(words)]);
    }
    lists.push(vec![rr(7), PacketSpec::Unknown(UnknownSpec { pt: 222, count: 3, data: vec![0x5a; 262_140], padding: 0 }), bye(8)]);
    // the largest size reached through padding: 12 + 4 * 65531 + 8 = 262144
    lists.push(vec![bye(5), PacketSpec::App(AppSpec { ssrc: 5, subtype: 1, name: "many".into(), data: vec![0x61; 4 * 65_531], padding: 8 })]);
    // nesting: 40 nested compounds of 3 members each, and a chain nested 6 deep
    lists.push((0..40).map(|k| PacketSpec::Compound(vec![rr(k), bye(k), app(2)])).collect());
    let mut deep = PacketSpec::Compound(vec![bye(9)]);
    for k in 0..6 {
        deep = PacketSpec::Compound(vec![rr(k), deep]);
    }
    lists.push(vec![deep, bye(1)]);
    let mut out = Vec::new();
    for (i, l) in lists.into_iter().enumerate() {
        let how = How { wrap: i % 2 == 1, probe: i % 3 == 0, ..How::default() };
        // as it is; last member padded (legal); a middle member padded (must be rejected)
        out.push(BuildCase { spec: PacketSpec::Compound(l.clone()), how, salt: i as u64 });
        // (packets beyond 65536 words are the class of a listed finding and are built by C16's dedicated leg only:
        // a member that is already within 8 bytes of the limit, or padded, keeps its padding)
        let room = |m: &PacketSpec| m.leaves().iter().all(|x| ref_size(x) + 8 <= 262_144 && x.padding() == 0);
        let mut last_padded = l.clone();
        if let Some(m) = last_padded.last_mut() {
            if room(m) {
                m.set_padding(8);
                out.push(BuildCase { spec: PacketSpec::Compound(last_padded), how, salt: i as u64 });
            }
        }
        let mut mid_padded = l;
        let at = mid_padded.len() / 2;
        if mid_padded.len() >= 2 && room(&mid_padded[at]) {
            mid_padded[at].set_padding(4);
            out.push(BuildCase { spec: PacketSpec::Compound(mid_padded), how, salt: i as u64 });
        }
    }
    out
}

// zero-sized third-party members: writers without any field (a fixed keep-alive packet, say). Boxes of such
// values do not allocate, so nothing about a member's address tells members apart.
mod zst {
    use rtcp_types::prelude::*;
    use rtcp_types::{RtcpParseError, RtcpWriteError};

    pub struct BeatView;
    impl RtcpPacket for BeatView {
        const MIN_PACKET_LEN: usize = 4;
        const PACKET_TYPE: u8 = 250;
    }
    impl<'a> RtcpPacketParser<'a> for BeatView {
        fn parse(_: &'a [u8]) -> Result<Self, RtcpParseError> {
            Ok(BeatView)
        }
        fn header_data(&self) -> [u8; 4] {
            [0x80, 250, 0, 0]
        }
    }

    #[derive(Debug)]
    pub struct Beat;
    #[derive(Debug)]
    pub struct PaddedBeat;
    impl RtcpPacketWriter for Beat {
        fn calculate_size(&self) -> Result<usize, RtcpWriteError> {
            Ok(4)
        }
        fn write_into_unchecked(&self, buf: &mut [u8]) -> usize {
            rtcp_types::utils::writer::write_header_unchecked::<BeatView>(0, 3, buf)
        }
        fn get_padding(&self) -> Option<u8> {
            None
        }
    }
    impl RtcpPacketWriter for PaddedBeat {
        fn calculate_size(&self) -> Result<usize, RtcpWriteError> {
            Ok(8)
        }
        fn write_into_unchecked(&self, buf: &mut [u8]) -> usize {
            let n = rtcp_types::utils::writer::write_header_unchecked::<BeatView>(4, 5, buf);
            n + rtcp_types::utils::writer::write_padding_unchecked(4, &mut buf[n..])
        }
        fn get_padding(&self) -> Option<u8> {
            Some(4)
        }
    }
}

/// members: 0 = Beat, 1 = PaddedBeat, 2 = a library BYE; the list is a string over that alphabet
pub(crate) fn c14_zst_oracle(c: &Bytes, st: &mut Stats) -> Verdict {
    use rtcp_types::prelude::*;
    let kinds = &c.0;
    st.label(&format!("members:{}", kinds.len().min(7)));
    let images: Vec<Vec<u8>> = kinds
        .iter()
        .map(|k| match k {
            0 => vec![0x83, 250, 0, 0],
            1 => vec![0xa5, 250, 0, 1, 0, 0, 0, 4],
            _ => vec![0x81, 203, 0, 1, 0, 0, 0, 7],
        })
        .collect();
    let padded_before_last = kinds.iter().rev().skip(1).any(|&k| k == 1);
    let r = no_panic("compound of zero-sized writers", || {
        let mut cb = rtcp_types::Compound::builder();
        for k in kinds {
            cb = match k {
                0 => cb.add_packet(zst::Beat),
                1 => cb.add_packet(zst::PaddedBeat),
                _ => cb.add_packet(rtcp_types::Bye::builder().add_source(7)),
            };
        }
        let size = cb.calculate_size();
        let mut buf = prefill(64, true);
        let written = cb.write_into(&mut buf);
        (size, written, buf)
    })
    .map_err(|f| Failure::new(format!("C14:zero-sized-members:{}", f.signature), f.detail))?;
    let (size, written, buf) = r;
    let concat: Vec<u8> = images.concat();
    if padded_before_last {
        st.nontrivial();
        st.label("a padded member that is not last");
        ensure!(size.is_err() && written.is_err(), "C14:zero-sized-members:accepted-padded-non-last", "members {kinds:?} (1 = padded): calculate_size = {size:?}, write_into = {written:?}");
    } else {
        if kinds.len() >= 2 {
            st.nontrivial();
        }
        ensure!(size.as_ref().ok() == Some(&concat.len()) && written.as_ref().ok() == Some(&concat.len()), "C14:zero-sized-members:size", "members {kinds:?}: calculate_size = {size:?}, write_into = {written:?}, the members add up to {}", concat.len());
        ensure!(buf[..concat.len()] == concat[..], "C14:zero-sized-members:bytes", "members {kinds:?}: compound bytes {}, members concatenated {}", hex(&buf[..concat.len()]), hex(&concat));
    }
    Ok(())
}

fn zst_lists() -> Vec<Bytes> {
    let mut v = Vec::new();
    for n in 1..=4u32 {
        for i in 0..3u32.pow(n) {
            v.push(Bytes((0..n).map(|d| ((i / 3u32.pow(d)) % 3) as u8).collect()));
        }
    }
    v
}

pub fn c14(tier: Tier) -> Check {
    Check {
        property: "C14",
        rule: "cases = lists of 0..=6 members (a fixed list of larger ones: 31..300 members, compounds beyond 64 KiB, nesting 6 deep) of every builder kind (nested compounds to depth 2, third-party writers, invalid members, padding on any member) x construction path; \
               oracle: success <=> every member's own calculate_size succeeds and no non-last member is padded; size == sum; bytes == concatenation of the members' own images \
               (FIR entries as a multiset); Compound::parse + iteration yields one Ok packet per leaf, Debug-equal to Packet::parse of that member's bytes; on Err the error is a member's own \
               or NonLastCompoundPacketPadding. non-trivial = success with >= 2 leaf members",
        assumptions: vec!["not judged: an empty nested compound in last position after a padded sibling ('last member' is ambiguous there); counted in the class histogram"],
        legs: vec![
            Box::new(RandomLeg { name: "random-member-lists", cases: tier.pick(200_000, 2_400_000), make: Box::new(compound_case), oracle: c14_oracle }),
            Box::new(ListLeg { name: "many-members-and-large-compounds", cases: many_members(), oracle: c14_oracle }),
            Box::new(ListLeg { name: "zero-sized-third-party-members", cases: zst_lists(), oracle: c14_zst_oracle }),
            Box::new(SweepLeg {
                name: "pairs-of-kinds-x-padding-position",
                n: (KIND_TEMPLATES * KIND_TEMPLATES * 4) as u64,
                at: Box::new(|i| {
                    let k = KIND_TEMPLATES as u64;
                    let mut a = kind_template((i % k) as usize);
                    let mut b = kind_template(((i / k) % k) as usize);
                    match i / (k * k) {
                        1 => b.set_padding(8),
                        2 => a.set_padding(4),
                        3 => {
                            a.set_padding(4);
                            b.set_padding(4)
                        }
                        _ => {}
                    }
                    BuildCase { spec: PacketSpec::Compound(vec![a, b]), how: How { wrap: i % 2 == 1, fb_owned: i % 3 == 1, single_compound: false, owned: i % 4 == 3, probe: i % 5 == 2 }, salt: 0 }
                }),
                oracle: c14_oracle,
                exhaustive: true,
            }),
        ],
    }
}
