//! The second use of an object. Every writer method takes `&self`, so one builder can be measured
//! and written any number of times, into buffers that are too small in between; a borrowed FCI
//! builder can sit in several feedback packets at once. What C06 / C07 / C17 / C20 say about a
//! configuration must hold for *every* use of the object that holds it, not only for the first
//! one: a builder that remembers something from an earlier call (a size, "already written", the
//! outcome of a failed write) and lets it leak into a later answer breaks them without ever
//! showing in configure-once / write-once use.
//!
//! One generated *use history* (`Vec<UseOp>`, shrinks as one value) is run against one builder
//! object; every answer is judged against the reference model of the configuration.

use super::build::compare_image;
use super::common::*;
use crate::drive::*;
use crate::gen;
use crate::model::*;
use crate::run::*;
use crate::{ensure, fail};
use proptest::prelude::*;
use rtcp_types::*;
use serde::{Deserialize, Serialize};

#[derive(Clone, Copy, Debug, PartialEq, Eq, Hash, Serialize, Deserialize)]
pub enum UseOp {
    /// `calculate_size()`
    Size,
    /// `get_padding()`
    Padding,
    /// `write_into` a buffer of exactly n bytes
    Exact,
    /// `write_into` a buffer of `k * n >> 16` bytes (shorter than n)
    Short(u16),
    /// `write_into` a buffer of n + 1 + s bytes
    Slack(u8),
    /// `write_into(&mut [])`
    Empty,
}

#[derive(Clone, Debug, PartialEq, Eq, Hash, Serialize, Deserialize)]
pub struct ReuseCase {
    pub spec: PacketSpec,
    pub how: How,
    pub ops: Vec<UseOp>,
}

fn use_op() -> BoxedStrategy<UseOp> {
    prop_oneof![
        3 => Just(UseOp::Size),
        1 => Just(UseOp::Padding),
        4 => Just(UseOp::Exact),
        3 => any::<u16>().prop_map(UseOp::Short),
        2 => (0u8..12).prop_map(UseOp::Slack),
        1 => Just(UseOp::Empty),
    ]
    .boxed()
}

pub fn reuse_case() -> BoxedStrategy<ReuseCase> {
    (prop_oneof![5 => valid_build_case(), 1 => any_build_case()], proptest::collection::vec(use_op(), 2..10))
        .prop_map(|(c, ops)| ReuseCase { spec: c.spec, how: c.how, ops })
        .boxed()
}

#[derive(Clone, Debug)]
enum UseObs {
    Size(Result<Result<usize, WErr>, Caught>),
    Padding(Result<Option<u8>, Caught>),
    Write { len: usize, which: bool, result: Result<Result<usize, WErr>, Caught>, after: Vec<u8> },
}

struct Reuse<'a> {
    ops: &'a [UseOp],
}

macro_rules! reuse_body {
    ($self:ident, $w:ident) => {{
        step("calculate_size");
        let base = guard(|| werr($w.calculate_size()));
        let n = match &base {
            Ok(Ok(n)) => Some(*n),
            _ => None,
        };
        let mut out = Vec::new();
        for (i, op) in $self.ops.iter().enumerate() {
            let len = match (*op, n) {
                (UseOp::Size, _) => {
                    step("calculate_size");
                    out.push(UseObs::Size(guard(|| werr($w.calculate_size()))));
                    continue;
                }
                (UseOp::Padding, _) => {
                    step("get_padding");
                    out.push(UseObs::Padding(guard(|| $w.get_padding())));
                    continue;
                }
                (UseOp::Exact, Some(n)) => n,
                (UseOp::Exact, None) => 64,
                (UseOp::Short(k), Some(n)) => (k as usize * n) >> 16,
                (UseOp::Short(k), None) => k as usize % 64,
                (UseOp::Slack(s), Some(n)) => n + 1 + s as usize,
                (UseOp::Slack(s), None) => 4096 + s as usize,
                (UseOp::Empty, _) => 0,
            };
            let which = i % 2 == 1;
            let mut buf = prefill(len, which);
            step("write_into");
            let result = guard(|| werr($w.write_into(&mut buf)));
            out.push(UseObs::Write { len, which, result, after: buf });
        }
        (base, out)
    }};
}

macro_rules! reuse_concrete {
    ($f:ident, $t:ty) => {
        fn $f(self, w: &$t) -> Self::Out {
            reuse_body!(self, w)
        }
    };
}

impl<'a> Visit for Reuse<'a> {
    type Out = (Result<Result<usize, WErr>, Caught>, Vec<UseObs>);
    fn go<W: RtcpPacketWriter>(self, w: &W) -> Self::Out {
        reuse_body!(self, w)
    }
    crate::for_concrete_builders!(reuse_concrete);
}

fn reuse_oracle(ctx: &str, c: &ReuseCase, st: &mut Stats) -> Verdict {
    let name = c.spec.long_name();
    st.label(&name);
    let model_valid = violations(&c.spec).is_empty();
    let (base, obs) = with_writer(&c.spec, c.how, Reuse { ops: &c.ops });
    let base = match base {
        Err(p) => fail!(format!("{ctx}:{name}:panic:calculate_size"), "calculate_size panicked: {}", p.message),
        Ok(b) => b,
    };
    st.label(if base.is_ok() { "accepted" } else { "rejected" });
    let sig = |m: &str| format!("{ctx}:{name}:reuse:{m}");
    let mut first_pad: Option<Option<u8>> = None;
    let mut failed_writes = 0usize;
    let mut good_writes = 0usize;
    let mut good_after_failed = false;
    for (i, o) in obs.iter().enumerate() {
        let hist = || format!("use {} of history {:?} (after the initial calculate_size = {:?})", i, &c.ops[..=i], base);
        match o {
            UseObs::Size(Err(p)) => fail!(sig("panic:calculate_size"), "{}: calculate_size panicked: {}", hist(), p.message),
            UseObs::Size(Ok(r)) => {
                ensure!(*r == base, sig("size-changes-between-calls"), "{}: calculate_size = {:?}", hist(), r);
            }
            UseObs::Padding(Err(p)) => fail!(sig("panic:get_padding"), "{}: get_padding panicked: {}", hist(), p.message),
            UseObs::Padding(Ok(p)) => {
                let norm = |x: &Option<u8>| x.unwrap_or(0);
                match &first_pad {
                    None => first_pad = Some(*p),
                    Some(q) => ensure!(norm(q) == norm(p), sig("get_padding-changes-between-calls"), "{}: get_padding = {:?}, earlier {:?}", hist(), p, q),
                }
            }
            UseObs::Write { result: Err(p), len, .. } => fail!(sig("panic:write_into"), "{}: write_into(buffer of {len}) panicked: {}", hist(), p.message),
            UseObs::Write { result: Ok(r), len, which, after } => {
                let before = prefill(*len, *which);
                match &base {
                    Err(e) => {
                        ensure!(*r == Err(e.clone()), sig("write-error-differs"), "{}: write_into(buffer of {len}) = {:?}", hist(), r);
                        ensure!(*after == before, sig("failed-write-touched-the-buffer"), "{}: the rejected write changed the buffer", hist());
                        failed_writes += 1;
                    }
                    Ok(n) if *len < *n => {
                        ensure!(*r == Err(WErr::OutputTooSmall(*n)), sig("short-buffer-not-OutputTooSmall"), "{}: write_into(buffer of {len}) = {:?}, want Err(OutputTooSmall({n}))", hist(), r);
                        ensure!(*after == before, sig("failed-write-touched-the-buffer"), "{}: the failed write changed the buffer: {} -> {}", hist(), hex(&before), hex(after));
                        failed_writes += 1;
                    }
                    Ok(n) => {
                        let n = *n;
                        ensure!(*r == Ok(n), sig("write-disagrees-with-size"), "{}: write_into(buffer of {len}) = {:?}, want Ok({n})", hist(), r);
                        ensure!(after[n..] == before[n..], sig("wrote-beyond-n"), "{}: bytes beyond the {n} reported were changed", hist());
                        if model_valid {
                            compare_image(&c.spec, &after[..n], ctx).map_err(|f| Failure::new(format!("{}:reuse", f.signature), format!("{}: {}", hist(), f.detail)))?;
                        }
                        good_writes += 1;
                        if failed_writes > 0 {
                            good_after_failed = true;
                        }
                    }
                }
            }
        }
    }
    st.label_if(good_after_failed, "successful write after a failed one");
    st.label_if(good_writes >= 2, "written more than once");
    st.label_if(c.how.single_compound || matches!(c.spec, PacketSpec::Compound(_)), "compound builder");
    if good_after_failed || good_writes >= 2 {
        st.nontrivial();
    }
    Ok(())
}

pub(crate) fn reuse_c06(c: &ReuseCase, st: &mut Stats) -> Verdict {
    reuse_oracle("C06", c, st)
}
pub(crate) fn reuse_c07(c: &ReuseCase, st: &mut Stats) -> Verdict {
    reuse_oracle("C07", c, st)
}
pub(crate) fn reuse_c17(c: &ReuseCase, st: &mut Stats) -> Verdict {
    reuse_oracle("C17", c, st)
}

pub fn reuse_leg(ctx: &'static str, tier: Tier) -> Box<dyn Leg> {
    let oracle: Oracle<ReuseCase> = match ctx {
        "C06" => reuse_c06,
        "C07" => reuse_c07,
        _ => reuse_c17,
    };
    Box::new(RandomLeg { name: "same-builder-used-repeatedly", cases: tier.pick(64_000, 640_000), make: Box::new(reuse_case), oracle })
}

// ---------------------------------------------------------------------------------------------
// one borrowed FCI builder shared by several feedback packets (C20: owned vs borrowed FCI)
// ---------------------------------------------------------------------------------------------

#[derive(Clone, Debug, PartialEq, Eq, Hash, Serialize, Deserialize)]
pub struct SharedFciCase {
    pub a: FbSpec,
    /// the second packet's sender, media, padding (same kind and FCI as `a`)
    pub b: (u32, u32, u8),
    /// which of the two packets is written at each step (false = a)
    pub order: Vec<bool>,
}

pub fn shared_fci_case() -> BoxedStrategy<SharedFciCase> {
    (gen::fb_spec(false), gen::u32b(), gen::u32b(), gen::padding_ok(), proptest::collection::vec(any::<bool>(), 1..6))
        .prop_map(|(a, s, m, p, order)| SharedFciCase { a, b: (s, m, p), order })
        .boxed()
}

pub(crate) fn shared_fci_oracle(c: &SharedFciCase, st: &mut Stats) -> Verdict {
    let sa = c.a.clone();
    let sb = FbSpec { sender: c.b.0, media: c.b.1, padding: c.b.2, ..c.a.clone() };
    let pa = PacketSpec::Fb(sa.clone());
    let pb = PacketSpec::Fb(sb.clone());
    let name = pa.long_name();
    st.label(&name);
    if !violations(&pa).is_empty() || !violations(&pb).is_empty() {
        st.label("not representable (skipped)");
        return Ok(());
    }
    let holder = fci(&sa.fci);
    fn write_one<W: RtcpPacketWriter>(w: &W, name: &str, what: &str, spec: &PacketSpec) -> Result<Vec<u8>, Failure> {
        step("calculate_size");
        let n = match guard(|| werr(w.calculate_size())) {
            Err(p) => fail!(format!("C20:{name}:shared-fci:panic:calculate_size"), "{what}: calculate_size panicked: {}", p.message),
            Ok(Err(e)) => fail!(format!("C20:{name}:shared-fci:rejected"), "{what}: a representable packet on a shared FCI builder is rejected: {e:?}"),
            Ok(Ok(n)) => n,
        };
        let mut buf = prefill(n, true);
        step("write_into");
        match guard(|| werr(w.write_into(&mut buf))) {
            Err(p) => fail!(format!("C20:{name}:shared-fci:panic:write_into"), "{what}: write_into panicked: {}", p.message),
            Ok(r) => ensure!(r == Ok(n), format!("C20:{name}:shared-fci:write-disagrees-with-size"), "{what}: calculate_size = Ok({n}), write_into = {r:?}"),
        }
        compare_image(spec, &buf, "C20").map_err(|f| Failure::new(format!("{}:shared-fci", f.signature), format!("{what}: {}", f.detail)))?;
        Ok(buf)
    }
    macro_rules! with_pair {
        ($mk:ident) => {{
            let wa = $mk(&sa, &holder);
            let wb = $mk(&sb, &holder);
            for (i, which) in c.order.iter().enumerate() {
                if *which {
                    write_one(&wb, &name, &format!("step {i}: second packet on the shared FCI builder"), &pb)?;
                } else {
                    write_one(&wa, &name, &format!("step {i}: first packet on the shared FCI builder"), &pa)?;
                }
            }
            if sa.padding == 0 {
                st.label("both in one compound");
                let cb = Compound::builder().add_packet(wa).add_packet(wb);
                write_one(&cb, &name, "compound of both packets", &PacketSpec::Compound(vec![pa.clone(), pb.clone()]))?;
            }
        }};
    }
    match sa.kind {
        FbKind::Transport => with_pair!(tfb),
        FbKind::Payload => with_pair!(pfb),
    }
    if c.order.len() >= 2 || has_variable_content(&pa) {
        st.nontrivial();
    }
    Ok(())
}

pub fn shared_fci_leg(tier: Tier) -> Box<dyn Leg> {
    Box::new(RandomLeg { name: "borrowed-fci-builder-shared-by-two-packets", cases: tier.pick(48_000, 400_000), make: Box::new(shared_fci_case), oracle: shared_fci_oracle })
}
