//! C20: builder output depends on the configuration, not on the call sequence.
//!
//! A case is a final configuration plus a *history*: a vector of choice bytes that an interpreter
//! consumes to decide, call by call, which setter comes next, whether a junk value is set first
//! (and later overwritten), which owned/borrowed variant of an API is used, and where in the
//! sequence the owned switch happens. All-zero choices give the canonical construction, so the
//! history shrinks (as one value) towards it.

use super::common::*;
use crate::drive::*;
use crate::gen;
use crate::model::*;
use crate::run::*;
use crate::{ensure, fail};
use proptest::prelude::*;
use rtcp_types::prelude::*;
use rtcp_types::*;
use serde::{Deserialize, Serialize};
use std::borrow::Cow;

#[derive(Clone, Debug, PartialEq, Eq, Hash, Serialize, Deserialize)]
pub struct HistCase {
    pub spec: PacketSpec,
    pub choices: Vec<u8>,
}

pub struct Ch<'c> {
    bytes: &'c [u8],
    at: usize,
    pub overwrites: u32,
    pub owned_after_set: u32,
    pub permuted: u32,
    /// number of setter-like calls made so far on the builder under construction
    calls: u32,
    /// size queries made on partially configured builders
    pub probes: u32,
}

impl<'c> Ch<'c> {
    fn new(bytes: &'c [u8]) -> Self {
        Ch { bytes, at: 0, overwrites: 0, owned_after_set: 0, permuted: 0, calls: 0, probes: 0 }
    }
    fn next(&mut self) -> u8 {
        let b = self.bytes.get(self.at).copied().unwrap_or(0);
        self.at += 1;
        b
    }
    /// choose among n options (0 = canonical)
    fn pick(&mut self, n: usize) -> usize {
        if n <= 1 {
            return 0;
        }
        let k = self.next() as usize % n;
        if k != 0 {
            self.permuted += 1;
        }
        k
    }
    fn flag(&mut self) -> bool {
        self.next() % 3 == 2
    }
    /// "measure, then go on": a size query on the partially configured builder at this point of the history
    fn probe<W: RtcpPacketWriter>(&mut self, w: &W) {
        if self.next() % 6 == 5 {
            self.probes += 1;
            // measured, and (small packets) written once for real and once into a buffer that is too small
            if let Ok(Ok(n)) = guard(|| w.calculate_size()) {
                if n <= 1024 {
                    let mut buf = vec![0xee_u8; n];
                    let _ = guard(|| w.write_into(&mut buf).is_ok());
                    let _ = guard(|| w.write_into(&mut buf[..n / 2]).is_ok());
                }
            }
        }
    }
    fn probe_fci<'f, F: FciBuilder<'f>>(&mut self, f: &F) {
        if self.next() % 6 == 5 {
            self.probes += 1;
            if let Ok(Ok(n)) = guard(|| f.calculate_size()) {
                if n <= 1024 {
                    let mut buf = vec![0xee_u8; n];
                    let _ = guard(|| f.write_into_unchecked(&mut buf));
                }
            }
        }
    }
    fn owned(&mut self) -> bool {
        let o = self.next() % 2 == 1;
        if o && self.calls > 0 {
            self.owned_after_set += 1;
        }
        o
    }
}

/// Run `pending` setters in a history-chosen order; each may first be called with a junk value
/// (at most twice) that the real call then overwrites.
fn scalars<B>(mut b: B, ch: &mut Ch, mut pending: Vec<(Box<dyn Fn(B, bool) -> B + '_>, u8)>, probe: fn(&B, &mut Ch)) -> B {
    while !pending.is_empty() {
        probe(&b, ch);
        let i = ch.pick(pending.len());
        if pending[i].1 < 2 && ch.flag() {
            pending[i].1 += 1;
            ch.overwrites += 1;
            b = (pending[i].0)(b, true);
        } else {
            let (f, _) = pending.remove(i);
            b = f(b, false);
        }
        ch.calls += 1;
    }
    b
}

fn rb_hist(s: &RbSpec, ch: &mut Ch) -> ReportBlockBuilder {
    let b = ReportBlock::builder(s.ssrc);
    let s = s.clone();
    let v: Vec<(Box<dyn Fn(ReportBlockBuilder, bool) -> ReportBlockBuilder>, u8)> = vec![
        (Box::new(move |b, j| b.fraction_lost(if j { !s.fraction_lost } else { s.fraction_lost })), 0),
        (Box::new(move |b, j| b.cumulative_lost(if j { 0x0123_4567 } else { s.cumulative_lost })), 0),
        (Box::new(move |b, j| b.extended_sequence_number(if j { !s.ext_seq } else { s.ext_seq })), 0),
        (Box::new(move |b, j| b.interarrival_jitter(if j { !s.jitter } else { s.jitter })), 0),
        (Box::new(move |b, j| b.last_sender_report_timestamp(if j { !s.lsr } else { s.lsr })), 0),
        (Box::new(move |b, j| b.delay_since_last_sender_report_timestamp(if j { !s.dlsr } else { s.dlsr })), 0),
    ];
    let saved = ch.calls;
    ch.calls = 0;
    let b = scalars(b, ch, v, |_, _| {});
    ch.calls = saved;
    b
}

fn sr_hist(s: &SrSpec, ch: &mut Ch) -> SenderReportBuilder {
    let mut b = SenderReport::builder(s.ssrc);
    // scalar setters interleave freely with the (ordered) block adds
    let mut pend: Vec<(u8, u8)> = vec![(0, 0), (1, 0), (2, 0), (3, 0), (4, 0)]; // (which, junk count)
    let mut next_block = 0usize;
    loop {
        ch.probe(&b);
        let opts = pend.len() + usize::from(next_block < s.blocks.len());
        if opts == 0 {
            break;
        }
        let i = ch.pick(opts);
        if i < pend.len() {
            let junk = pend[i].1 < 2 && ch.flag();
            let which = pend[i].0;
            if junk {
                pend[i].1 += 1;
                ch.overwrites += 1;
            } else {
                pend.remove(i);
            }
            b = match which {
                0 => b.padding(if junk { s.padding.wrapping_add(4) } else { s.padding }),
                1 => b.ntp_timestamp(if junk { !s.ntp } else { s.ntp }),
                2 => b.rtp_timestamp(if junk { !s.rtp } else { s.rtp }),
                3 => b.packet_count(if junk { !s.packet_count } else { s.packet_count }),
                _ => b.octet_count(if junk { !s.octet_count } else { s.octet_count }),
            };
        } else {
            b = b.add_report_block(rb_hist(&s.blocks[next_block], ch));
            next_block += 1;
        }
        ch.calls += 1;
    }
    b
}

fn rr_hist(s: &RrSpec, ch: &mut Ch) -> ReceiverReportBuilder {
    let mut b = ReceiverReport::builder(s.ssrc);
    let mut pad_pending = true;
    let mut junked = 0;
    let mut next_block = 0usize;
    loop {
        ch.probe(&b);
        let opts = usize::from(pad_pending) + usize::from(next_block < s.blocks.len());
        if opts == 0 {
            break;
        }
        let i = ch.pick(opts);
        if pad_pending && i == 0 {
            if junked < 2 && ch.flag() {
                junked += 1;
                ch.overwrites += 1;
                b = b.padding(s.padding.wrapping_add(8));
            } else {
                pad_pending = false;
                b = b.padding(s.padding);
            }
        } else {
            b = b.add_report_block(rb_hist(&s.blocks[next_block], ch));
            next_block += 1;
        }
        ch.calls += 1;
    }
    b
}

fn item_hist<'a>(it: &'a ItemSpec, ch: &mut Ch) -> SdesItemBuilder<'a> {
    // value: &str or String; prefix: borrowed or owned, possibly set twice; into_owned at a random point
    let mut b: SdesItemBuilder<'a> = if ch.next() % 2 == 1 { SdesItemBuilder::new(it.ty, it.value.clone()) } else { SdesItem::builder(it.ty, it.value.as_str()) };
    let set_prefix = it.ty == 8 || !it.prefix.is_empty();
    let mut converted = false;
    if ch.next() % 4 == 3 {
        b = b.into_owned();
        converted = true;
    }
    if set_prefix {
        if ch.flag() {
            ch.overwrites += 1;
            b = b.prefix(vec![0xde, 0xad]);
        }
        b = if ch.next() % 2 == 1 { b.prefix(it.prefix.clone()) } else { b.prefix(&it.prefix[..]) };
        if !converted && ch.next() % 4 == 3 {
            // into_owned after the prefix was set: it must not lose it
            ch.owned_after_set += 1;
            b = b.into_owned();
        }
    }
    b
}

fn chunk_hist<'a>(c: &'a ChunkSpec, ch: &mut Ch) -> SdesChunkBuilder<'a> {
    let mut b = SdesChunk::builder(c.ssrc);
    for (i, it) in c.items.iter().enumerate() {
        if ch.next() % 6 == 5 {
            // the chunk builder's only public size query is a write
            ch.probes += 1;
            let _ = guard(|| {
                let mut scratch = [0u8; 64];
                b.write_into(&mut scratch).is_ok()
            });
        }
        let ib = item_hist(it, ch);
        if ch.next() % 2 == 1 {
            if i > 0 {
                ch.owned_after_set += 1;
            }
            b = b.add_item_owned(ib);
        } else {
            b = b.add_item(ib);
        }
    }
    b
}

fn sdes_hist<'a>(s: &'a SdesSpec, ch: &mut Ch) -> SdesBuilder<'a> {
    let mut b = Sdes::builder();
    let mut pad_pending = true;
    let mut junked = 0;
    let mut next = 0usize;
    loop {
        ch.probe(&b);
        let opts = usize::from(pad_pending) + usize::from(next < s.chunks.len());
        if opts == 0 {
            break;
        }
        let i = ch.pick(opts);
        if pad_pending && i == 0 {
            if junked < 2 && ch.flag() {
                junked += 1;
                ch.overwrites += 1;
                b = b.padding(s.padding ^ 0x10);
            } else {
                pad_pending = false;
                b = b.padding(s.padding);
            }
        } else {
            b = b.add_chunk(chunk_hist(&s.chunks[next], ch));
            next += 1;
        }
        ch.calls += 1;
    }
    b
}

fn bye_hist<'a>(s: &'a ByeSpec, ch: &mut Ch) -> ByeBuilder<'a> {
    let mut b: ByeBuilder<'a> = Bye::builder();
    // pending: padding, reason (if set); sources in order
    let mut pad = (true, 0);
    let mut reason = (s.reason.is_some(), 0);
    let mut next = 0usize;
    loop {
        ch.probe(&b);
        let mut opts: Vec<u8> = Vec::new();
        if pad.0 {
            opts.push(0);
        }
        if next < s.sources.len() {
            opts.push(1);
        }
        if reason.0 {
            opts.push(2);
        }
        if opts.is_empty() {
            break;
        }
        match opts[ch.pick(opts.len())] {
            0 => {
                if pad.1 < 2 && ch.flag() {
                    pad.1 += 1;
                    ch.overwrites += 1;
                    b = b.padding(s.padding.wrapping_add(12));
                } else {
                    pad.0 = false;
                    b = b.padding(s.padding);
                }
            }
            1 => {
                b = b.add_source(s.sources[next]);
                next += 1;
            }
            _ => {
                let r = s.reason.as_ref().unwrap();
                let junk = reason.1 < 2 && ch.flag();
                let text: Cow<'a, str> = if junk { Cow::Owned(format!("junk{}", r.len())) } else if ch.next() % 2 == 1 { Cow::Owned(r.clone()) } else { Cow::Borrowed(r.as_str()) };
                if junk {
                    reason.1 += 1;
                    ch.overwrites += 1;
                } else {
                    reason.0 = false;
                }
                if ch.owned() {
                    // the owned variant rebuilds the builder: it must keep padding and sources set so far
                    b = b.reason_owned(text);
                } else {
                    b = b.reason(text);
                }
            }
        }
        ch.calls += 1;
    }
    b
}

fn app_hist<'a>(s: &'a AppSpec, junk_data: &'a [u8], ch: &mut Ch) -> AppBuilder<'a> {
    let b = App::builder(s.ssrc, s.name.as_str());
    let v: Vec<(Box<dyn Fn(AppBuilder<'a>, bool) -> AppBuilder<'a> + '_>, u8)> = vec![
        (Box::new(move |b, j| b.padding(if j { s.padding.wrapping_add(4) } else { s.padding })), 0),
        (Box::new(move |b, j| b.subtype(if j { s.subtype ^ 1 } else { s.subtype })), 0),
        (Box::new(move |b, j| b.data(if j { junk_data } else { &s.data })), 0),
    ];
    scalars(b, ch, v, |b, ch| ch.probe(b))
}

fn unknown_hist<'a>(s: &'a UnknownSpec, ch: &mut Ch) -> UnknownBuilder<'a> {
    let b = if ch.next() % 2 == 1 { UnknownBuilder::new(s.pt, &s.data) } else { Unknown::builder(s.pt, &s.data) };
    let v: Vec<(Box<dyn Fn(UnknownBuilder<'a>, bool) -> UnknownBuilder<'a> + '_>, u8)> = vec![
        (Box::new(move |b, j| b.padding(if j { s.padding.wrapping_add(4) } else { s.padding })), 0),
        (Box::new(move |b, j| b.count(if j { s.count ^ 3 } else { s.count })), 0),
    ];
    scalars(b, ch, v, |b, ch| ch.probe(b))
}

fn fci_hist(f: &FciSpec, ch: &mut Ch) -> FciHolder<'static> {
    match f {
        FciSpec::Nack(v) => {
            // adds in a history-chosen order, some repeated (idempotent)
            let mut order: Vec<u16> = v.clone();
            let mut b = Nack::builder();
            while !order.is_empty() {
                ch.probe_fci(&b);
                let i = ch.pick(order.len().min(8));
                let s = order.remove(i);
                b = b.add_rtp_sequence(s);
                if ch.flag() {
                    ch.overwrites += 1;
                    b = b.add_rtp_sequence(s);
                }
            }
            FciHolder::Nack(b)
        }
        FciSpec::Pli => FciHolder::Pli(Pli::builder()),
        FciSpec::Sli(v) => {
            let mut b = Sli::builder();
            for (a, n, p) in v {
                ch.probe_fci(&b);
                b = b.add_lost_macroblock(*a, *n, *p);
            }
            FciHolder::Sli(b)
        }
        FciSpec::Rpsi { pt, data, overrun } => {
            let mut b: RpsiBuilder<'static> = Rpsi::builder();
            let mut pend: Vec<(u8, u8)> = vec![(0, 0), (1, 0)];
            let mut calls = 0;
            while !pend.is_empty() {
                ch.probe_fci(&b);
                let i = ch.pick(pend.len());
                let junk = pend[i].1 < 2 && ch.flag();
                let which = pend[i].0;
                if junk {
                    pend[i].1 += 1;
                    ch.overwrites += 1;
                } else {
                    pend.remove(i);
                }
                b = if which == 0 {
                    b.payload_type(if junk { pt ^ 1 } else { *pt })
                } else {
                    let d: Vec<u8> = if junk { vec![1, 2, 3] } else { data.clone() };
                    let o = if junk { 1 } else { *overrun };
                    if ch.next() % 2 == 1 {
                        if calls > 0 {
                            ch.owned_after_set += 1;
                        }
                        b.native_data_owned(d, o)
                    } else {
                        b.native_data(d, o)
                    }
                };
                calls += 1;
            }
            FciHolder::Rpsi(b)
        }
        FciSpec::Fir(v) => {
            // re-adding an SSRC keeps the last sequence: junk sequences may precede the spec's adds
            let mut b = Fir::builder();
            if ch.flag() {
                // a first pass with junk sequences for every SSRC: each real add below is then a re-add that is
                // separated from its first add by the other SSRCs
                ch.overwrites += 1;
                for (s, q) in v {
                    b = b.add_ssrc(*s, q.wrapping_add(7));
                }
            }
            for (s, q) in v {
                ch.probe_fci(&b);
                if ch.flag() {
                    ch.overwrites += 1;
                    b = b.add_ssrc(*s, q.wrapping_add(1));
                }
                b = b.add_ssrc(*s, *q);
            }
            FciHolder::Fir(b)
        }
    }
}

struct Obs;

fn obs_plan(n: Option<usize>) -> Vec<(usize, bool)> {
    match n {
        Some(n) => vec![(n, true)],
        None => vec![],
    }
}

fn obs_out(o: BuildObs) -> <Obs as Visit>::Out {
    let bytes = match (&o.size, o.writes.first()) {
        (Ok(Ok(n)), Some(w)) if w.result == Ok(Ok(*n)) => Some(w.after.clone()),
        _ => None,
    };
    (o.size, bytes, o.get_padding)
}

macro_rules! obs_concrete {
    ($f:ident, $t:ty) => {
        fn $f(self, w: &$t) -> Self::Out {
            obs_out(Observe { plan: obs_plan }.$f(w))
        }
    };
}

impl Visit for Obs {
    type Out = (Result<Result<usize, WErr>, Caught>, Option<Vec<u8>>, Result<Option<u8>, Caught>);
    fn go<W: RtcpPacketWriter>(self, w: &W) -> Self::Out {
        obs_out(Observe { plan: obs_plan }.go(w))
    }
    crate::for_concrete_builders!(obs_concrete);
}

/// wrap in the PacketBuilder enum and/or a one-member compound, as the history says
fn finish<'a, B: RtcpPacketWriter + 'a>(b: B, ch: &mut Ch, wrap: impl FnOnce(B) -> PacketBuilder<'a>) -> <Obs as Visit>::Out {
    match ch.next() % 4 {
        1 => {
            ch.owned_after_set += 1;
            Obs.go_enum(&wrap(b))
        }
        2 => {
            ch.owned_after_set += 1;
            let cb = Compound::builder();
            ch.probe(&cb);
            Obs.go_compound(&cb.add_packet(b))
        }
        3 => {
            ch.owned_after_set += 1;
            Obs.go_compound(&Compound::builder().add_packet(wrap(b)))
        }
        _ => Obs.go(&b),
    }
}

fn fb_hist(s: &FbSpec, ch: &mut Ch) -> <Obs as Visit>::Out {
    let holder = fci_hist(&s.fci, ch);
    let owned = ch.next() % 2 == 1;
    macro_rules! setters {
        ($b:expr) => {{
            let mut b = $b;
            let mut pend: Vec<(u8, u8)> = vec![(0, 0), (1, 0), (2, 0)];
            while !pend.is_empty() {
                ch.probe(&b);
                let i = ch.pick(pend.len());
                let junk = pend[i].1 < 2 && ch.flag();
                let which = pend[i].0;
                if junk {
                    pend[i].1 += 1;
                    ch.overwrites += 1;
                } else {
                    pend.remove(i);
                }
                b = match which {
                    0 => b.sender_ssrc(if junk { !s.sender } else { s.sender }),
                    1 => b.media_ssrc(if junk { !s.media } else { s.media }),
                    _ => b.padding(if junk { s.padding.wrapping_add(4) } else { s.padding }),
                };
                ch.calls += 1;
            }
            b
        }};
    }
    match (s.kind, owned) {
        (FbKind::Transport, false) => {
            let b = setters!(TransportFeedback::builder(holder.as_dyn()));
            finish(b, ch, PacketBuilder::from)
        }
        (FbKind::Payload, false) => {
            let b = setters!(PayloadFeedback::builder(holder.as_dyn()));
            finish(b, ch, PacketBuilder::from)
        }
        (FbKind::Transport, true) => {
            let b0 = match holder {
                FciHolder::Nack(f) => TransportFeedback::builder_owned(f),
                FciHolder::Pli(f) => TransportFeedback::builder_owned(f),
                FciHolder::Sli(f) => TransportFeedback::builder_owned(f),
                FciHolder::Rpsi(f) => TransportFeedback::builder_owned(f),
                FciHolder::Fir(f) => TransportFeedback::builder_owned(f),
            };
            let b = setters!(b0);
            finish(b, ch, PacketBuilder::from)
        }
        (FbKind::Payload, true) => {
            let b0 = match holder {
                FciHolder::Nack(f) => PayloadFeedback::builder_owned(f),
                FciHolder::Pli(f) => PayloadFeedback::builder_owned(f),
                FciHolder::Sli(f) => PayloadFeedback::builder_owned(f),
                FciHolder::Rpsi(f) => PayloadFeedback::builder_owned(f),
                FciHolder::Fir(f) => PayloadFeedback::builder_owned(f),
            };
            let b = setters!(b0);
            finish(b, ch, PacketBuilder::from)
        }
    }
}

fn fir_normal(spec: &PacketSpec, b: &[u8]) -> Vec<u8> {
    // FIR entry order is per-instance: sort the 8-byte records
    if let PacketSpec::Fb(FbSpec { fci: FciSpec::Fir(_), padding, .. }) = spec {
        let end = b.len().saturating_sub(*padding as usize);
        if b.len() >= 12 && end >= 12 {
            let mut recs: Vec<&[u8]> = b[12..end].chunks(8).collect();
            recs.sort();
            let mut out = b[..12].to_vec();
            for r in recs {
                out.extend_from_slice(r);
            }
            out.extend_from_slice(&b[end..]);
            return out;
        }
    }
    b.to_vec()
}

pub(crate) fn c20_oracle(c: &HistCase, st: &mut Stats) -> Verdict {
    let name = c.spec.long_name();
    st.label(&name);
    let junk_data = [0xeeu8; 8];
    let mut ch = Ch::new(&c.choices);
    let via_history = guard(|| match &c.spec {
        PacketSpec::Sr(s) => {
            let b = sr_hist(s, &mut ch);
            finish(b, &mut ch, PacketBuilder::from)
        }
        PacketSpec::Rr(s) => {
            let b = rr_hist(s, &mut ch);
            finish(b, &mut ch, PacketBuilder::from)
        }
        PacketSpec::Sdes(s) => {
            let b = sdes_hist(s, &mut ch);
            finish(b, &mut ch, PacketBuilder::from)
        }
        PacketSpec::Bye(s) => {
            let b = bye_hist(s, &mut ch);
            finish(b, &mut ch, PacketBuilder::from)
        }
        PacketSpec::App(s) => {
            let b = app_hist(s, &junk_data, &mut ch);
            finish(b, &mut ch, PacketBuilder::from)
        }
        PacketSpec::Unknown(s) => {
            let b = unknown_hist(s, &mut ch);
            finish(b, &mut ch, PacketBuilder::from)
        }
        PacketSpec::Fb(s) => fb_hist(s, &mut ch),
        _ => (Ok(Err(WErr::Other("not a C20 case".into()))), None, Ok(None)),
    });
    let (hsize, hbytes, hpad) = match via_history {
        Ok(x) => x,
        Err(cg) => fail!(format!("C20:{name}:panic:{}", cg.step), "building through the history panicked in {}: {}", cg.step, cg.message),
    };
    st.label_if(ch.overwrites > 0, "a setter is overwritten / an add repeated");
    st.label_if(ch.owned_after_set > 0, "owned variant or wrapper after other fields were set");
    st.label_if(ch.permuted > 0, "setters permuted");
    st.label_if(ch.probes > 0, "size queried on the partially configured builder");
    if ch.overwrites > 0 || ch.owned_after_set > 0 || ch.probes > 0 {
        st.nontrivial();
    }
    // canonical construction of the same final configuration
    let canon = observe_build(&c.spec, How::default(), |n| match n {
        Some(n) => vec![(n, true)],
        None => vec![],
    });
    let csize = match &canon.size {
        Ok(s) => s.clone(),
        Err(cg) => fail!(format!("C20:{name}:panic:canonical"), "canonical construction panicked: {}", cg.message),
    };
    let hsize = match hsize {
        Ok(s) => s,
        Err(cg) => fail!(format!("C20:{name}:panic:calculate_size"), "calculate_size after the history panicked: {}", cg.message),
    };
    // sizes must be equal; for an unrepresentable final configuration both paths must fail, but WHICH of the
    // violated rules each names is C16's latitude ("one of the violated rules"), not a matter of the call sequence
    let same = match (&hsize, &csize) {
        (Ok(a), Ok(b)) => a == b,
        (Err(_), Err(_)) => true,
        _ => false,
    };
    st.label_if(matches!((&hsize, &csize), (Err(a), Err(b)) if a != b), "both paths fail, naming different violated rules");
    ensure!(same, format!("C20:{name}:size-or-error-differs"), "through the history: {hsize:?}; canonical construction: {csize:?}");
    if let Ok(n) = csize {
        let cbytes = match canon.writes.first() {
            Some(w) if w.result == Ok(Ok(n)) => &w.after,
            other => fail!(format!("C20:{name}:canonical-write"), "canonical write_into: {:?}", other.map(|w| &w.result)),
        };
        let hb = match hbytes {
            Some(b) => b,
            None => fail!(format!("C20:{name}:write-after-history"), "write_into after the history did not return Ok({n})"),
        };
        let (a, b) = (fir_normal(&c.spec, &hb), fir_normal(&c.spec, cbytes));
        if a != b {
            let off = a.iter().zip(&b).position(|(x, y)| x != y).unwrap_or(a.len().min(b.len()));
            fail!(
                format!("C20:{name}:bytes-differ@{}", region(off, b.len(), c.spec.padding() as usize)),
                "offset {off}: through the history {} ; canonical {}",
                hex(&hb),
                hex(cbytes)
            );
        }
        let want_pad = if c.spec.padding() == 0 { None } else { Some(c.spec.padding()) };
        // a padding of 0 may be reported as None or as Some(0) (C14 reads both as "requests no padding")
        let same = match (&hpad, want_pad) {
            (Ok(Some(0)), None) | (Ok(None), None) => true,
            (Ok(got), want) => *got == want,
            (Err(_), _) => false,
        };
        ensure!(same, format!("C20:{name}:get_padding"), "get_padding() after the history = {hpad:?}, configured {want_pad:?}");
    }
    Ok(())
}

fn hist_case(inv: bool) -> BoxedStrategy<HistCase> {
    (gen::leaf_spec(inv, false), proptest::collection::vec(prop_oneof![2 => Just(0u8), 3 => any::<u8>()], 0..=96))
        .prop_map(|(spec, choices)| HistCase { spec, choices })
        .boxed()
}

pub fn c20(tier: Tier) -> Check {
    Check {
        property: "C20",
        rule: "cases = (final configuration of one of the 8 builder kinds, history = choice bytes interpreted call by call: order of independent setters, junk value first then overwritten (up to twice per setter), \
               duplicate NACK adds in any order, FIR re-adds (last sequence wins), &str vs String, borrowed vs owned prefix/data, reason vs reason_owned, into_owned before/after the prefix, add_item vs add_item_owned, \
               native_data vs native_data_owned, builder vs builder_owned, bare vs PacketBuilder::from vs one-member CompoundBuilder); oracle: size and bytes (or the error) equal those of the canonical construction of the \
               final configuration (FIR up to entry order), get_padding as configured; size queries (calculate_size, or SdesChunkBuilder::write_into) on the partially configured builder at history-chosen points must leave no trace; non-trivial = a setter is overwritten, an owned variant / wrapper is used after another field was set, or the size was queried mid-way",
        assumptions: vec!["the canonical construction (harness/src/drive.rs) is itself checked against the RFC image by C07"],
        legs: vec![
            super::reuse::shared_fci_leg(tier),
            Box::new(RandomLeg { name: "valid-configs-x-histories", cases: tier.pick(400_000, 6_000_000), make: Box::new(|| hist_case(false)), oracle: c20_oracle }),
            Box::new(RandomLeg { name: "any-configs-x-histories", cases: tier.pick(200_000, 3_000_000), make: Box::new(|| hist_case(true)), oracle: c20_oracle }),
            Box::new(SweepLeg {
                name: "kind-templates-x-single-deviation",
                n: 11 * 40 * 5,
                at: Box::new(|i| {
                    // exactly one non-canonical choice at position p with value v: every single deviation of the first 40 decisions
                    let mut spec = super::build::kind_template((i % 11) as usize);
                    spec.set_padding(8);
                    let p = ((i / 11) % 40) as usize;
                    let v = [1u8, 2, 3, 5, 7][(i / 440) as usize];
                    let mut choices = vec![0u8; 40];
                    choices[p] = v;
                    HistCase { spec, choices }
                }),
                oracle: c20_oracle,
                exhaustive: true,
            }),
        ],
    }
}
