//! C10: SDES decoding follows RFC 3550 chunk and item tokenisation (three-valued reference).

use crate::gen;
use crate::model::*;
use crate::run::*;
use crate::{ensure, fail};
use proptest::prelude::*;
use rtcp_types::prelude::*;
use rtcp_types::{Sdes, SdesItem};

/// what the crate's parser yields, in the reference's token shape (wire_len from SdesChunk::length)
fn crate_tokens(p: &Sdes) -> Result<Vec<(TokChunk, Vec<usize>)>, Failure> {
    let (out, verdict) = guard(|| {
        let mut out = Vec::new();
        let mut verdict: Verdict = Ok(());
        let mut note = |v: Verdict| {
            if verdict.is_ok() {
                verdict = v;
            }
        };
        step("Sdes::chunks");
        for c in p.chunks() {
            let mut items = Vec::new();
            let mut lens = Vec::new();
            step("SdesChunk::items");
            for it in c.items() {
                step("SdesItem accessors");
                let ty = it.type_();
                lens.push(it.length());
                let value = it.value().to_vec();
                let prefix = if ty == SdesItem::PRIV { it.priv_prefix().to_vec() } else { Vec::new() };
                // the value as a string is the value's bytes as a string
                step("SdesItem::get_value_string");
                let s = it.get_value_string().ok();
                if s != String::from_utf8(value.clone()).ok() {
                    note(Err(Failure::new("C10:value-string", format!("get_value_string() = {s:?} for the value bytes {}", hex(&value)))));
                }
                items.push(TokItem { ty, content: Vec::new(), prefix, value });
            }
            // the same items whichever way the iterator is driven
            let want: Vec<(u8, Vec<u8>)> = items.iter().map(|i: &TokItem| (i.ty, i.value.clone())).collect();
            let salt = want.iter().fold(c.ssrc() as u64, |h, (t, v)| h.wrapping_mul(0x100_0000_01b3) ^ (*t as u64) ^ ((v.len() as u64) << 8));
            note(super::common::iter_protocol("SdesChunk::items", "C10", || c.items(), |i| (i.type_(), i.value().to_vec()), &want, salt, false));
            step("SdesChunk::ssrc/length");
            out.push((TokChunk { ssrc: c.ssrc(), items, wire_len: c.length() }, lens));
        }
        let want: Vec<(u32, usize)> = out.iter().map(|(c, _)| (c.ssrc, c.wire_len)).collect();
        let salt = want.iter().fold(want.len() as u64, |h, (s, l)| h.wrapping_mul(0x100_0000_01b3) ^ (*s as u64) ^ ((*l as u64) << 32));
        note(super::common::iter_protocol("Sdes::chunks", "C10", || p.chunks(), |c| (c.ssrc(), c.length()), &want, salt, false));
        (out, verdict)
    })
    .map_err(|c| Failure::new(format!("C10:panic:{}", c.step), format!("{} panicked: {}", c.step, c.message)))?;
    verdict?;
    Ok(out)
}

fn same_tokens(want: &[TokChunk], got: &[(TokChunk, Vec<usize>)], b: &[u8], class: &str) -> Verdict {
    ensure!(want.len() == got.len(), format!("C10:{class}:chunk-count"), "parser yields {} chunks, the bytes tokenise into {}; input {}", got.len(), want.len(), hex(b));
    for (i, (w, (g, lens))) in want.iter().zip(got).enumerate() {
        ensure!(w.ssrc == g.ssrc, format!("C10:{class}:ssrc"), "chunk {i}: ssrc {:#x}, wire {:#x}; input {}", g.ssrc, w.ssrc, hex(b));
        ensure!(w.items.len() == g.items.len(), format!("C10:{class}:item-count"), "chunk {i}: {} items, wire has {}; input {}", g.items.len(), w.items.len(), hex(b));
        for (j, (wi, gi)) in w.items.iter().zip(&g.items).enumerate() {
            ensure!(wi.ty == gi.ty, format!("C10:{class}:item-type"), "chunk {i} item {j}: type {} vs wire {}; input {}", gi.ty, wi.ty, hex(b));
            ensure!(lens[j] == wi.content.len(), format!("C10:{class}:item-length"), "chunk {i} item {j}: length() {} vs wire {}; input {}", lens[j], wi.content.len(), hex(b));
            ensure!(wi.value == gi.value, format!("C10:{class}:item-value"), "chunk {i} item {j}: value {} vs wire {}; input {}", hex(&gi.value), hex(&wi.value), hex(b));
            ensure!(wi.prefix == gi.prefix, format!("C10:{class}:priv-prefix"), "chunk {i} item {j}: prefix {} vs wire {}; input {}", hex(&gi.prefix), hex(&wi.prefix), hex(b));
        }
    }
    Ok(())
}

pub(crate) fn c10_oracle(c: &Bytes, st: &mut Stats) -> Verdict {
    let b = &c.0[..];
    match ref_framing(b, Some(202), 4) {
        Framing::Well { .. } => {}
        Framing::PaddingZone => {
            st.label("either-unchecked: padding count larger than the body");
            // nothing is demanded here beyond "no crash": the parser and, if it accepts, the accessors still run
            if let Ok(p) = no_panic("Sdes::parse", || Sdes::parse(b)).map_err(|f| Failure::new(format!("C10:{}", f.signature), format!("{}; input {}", f.detail, hex(b))))? {
                let _ = crate_tokens(&p)?;
            }
            return Ok(());
        }
        Framing::Bad(_) => {
            st.label("not framed as an SDES packet (outside the domain)");
            return Ok(());
        }
    }
    let reference = ref_sdes_tokenise(b);
    let parsed = no_panic("Sdes::parse", || Sdes::parse(b)).map_err(|f| Failure::new(format!("C10:{}", f.signature), format!("{}; input {}", f.detail, hex(b))))?;
    let interesting = |chunks: &[TokChunk]| chunks.len() >= 2 || chunks.iter().any(|c| !c.items.is_empty());
    match reference {
        SdesRef::MustAccept(tokens) => {
            st.label("must-accept");
            if interesting(&tokens) {
                st.nontrivial();
            }
            let p = match parsed {
                Ok(p) => p,
                Err(e) => fail!("C10:rejected-well-formed", "Sdes::parse = Err({e:?}) on a well-formed SDES packet: {}", hex(b)),
            };
            let got = crate_tokens(&p)?;
            same_tokens(&tokens, &got, b, "well-formed")?;
            for (i, (w, (g, _))) in tokens.iter().zip(&got).enumerate() {
                ensure!(w.wire_len == g.wire_len, "C10:well-formed:chunk-length", "chunk {i}: length() = {}, it occupies {} bytes; input {}", g.wire_len, w.wire_len, hex(b));
            }
        }
        SdesRef::MustReject(why) => {
            st.label(&format!("must-reject: {why}"));
            st.nontrivial();
            if parsed.is_ok() {
                fail!(format!("C10:accepted-malformed:{}", why.replace(' ', "-")), "Sdes::parse accepted a packet in which: {why}; input {}", hex(b));
            }
        }
        SdesRef::Either(tokens, why) => {
            st.label(&format!("either: {why}"));
            if let Ok(p) = parsed {
                st.label("either: accepted");
                if interesting(&tokens) {
                    st.nontrivial();
                }
                let got = crate_tokens(&p)?;
                same_tokens(&tokens, &got, b, "ambiguous")?;
            }
        }
        SdesRef::EitherUnchecked(why) => {
            st.label(&format!("either-unchecked: {why}"));
            if let Ok(p) = parsed {
                let _ = crate_tokens(&p)?;
            }
        }
    }
    Ok(())
}

/// frame `body` (a multiple of 4 bytes) as an SDES packet with source count `sc` and `pad` bytes of padding
pub(crate) fn frame(body: &[u8], sc: u8, pad: u8) -> Vec<u8> {
    let mut b = vec![0x80 | if pad > 0 { 0x20 } else { 0 } | (sc & 31), 202, 0, 0];
    b.extend_from_slice(body);
    if pad > 0 {
        for _ in 1..pad {
            b.push(0);
        }
        b.push(pad);
    }
    let w = (b.len() / 4 - 1) as u16;
    b[2] = (w >> 8) as u8;
    b[3] = w as u8;
    b
}

/// bounded-exhaustive bodies: alphabet^len, x {no padding, 4 bytes padding} x {SC = reference chunk count, SC = 1}
fn exhaustive_leg(alphabet: &'static [u8], len: u32) -> (u64, impl Fn(u64) -> Bytes) {
    let a = alphabet.len() as u64;
    let n = a.pow(len) * 4;
    (n, move |i: u64| {
        let variant = i % 4;
        let mut k = i / 4;
        let mut body = Vec::with_capacity(len as usize);
        for _ in 0..len {
            body.push(alphabet[(k % a) as usize]);
            k /= a;
        }
        let pad = if variant & 1 == 1 { 4 } else { 0 };
        let mut b = frame(&body, 1, pad);
        if variant & 2 == 2 {
            // make the source count agree with the number of chunks the bytes tokenise into
            let sc = match ref_sdes_tokenise(&b) {
                SdesRef::MustAccept(c) | SdesRef::Either(c, _) => c.len().min(31) as u8,
                _ => 0,
            };
            b[0] = b[0] & 0xe0 | sc;
        }
        Bytes(b)
    })
}

#[derive(Clone, Debug)]
enum SdesEdit {
    LenDelta(u16, i8),
    PrefixLen(u16, u8),
    FillNonZero(u16, u8),
    DropLastWord,
    AddZeroWord,
    AddWord([u8; 4]),
    SetCount(u8),
    CutBytes(u8),
}

/// token-level bodies: a well-formed SDES spec, encoded chunk by chunk while recording the offsets of
/// item length octets, PRIV prefix-length octets and fill octets, then 0..=2 targeted edits
pub(crate) fn token_level() -> BoxedStrategy<Bytes> {
    let ssrc = prop_oneof![2 => any::<u32>(), 2 => proptest::sample::select(vec![0u32, 0x0000_0001, 0x00ab_cdef, 0x0000_abcd, 0x0800_0000, 0x0108_0000])];
    let item = prop_oneof![
        4 => (1u8..=9, proptest::collection::vec(any::<u8>(), 0..=9)).prop_map(|(ty, v)| (ty, Vec::new(), v)),
        3 => (proptest::collection::vec(any::<u8>(), 0..=4), proptest::collection::vec(any::<u8>(), 0..=5)).prop_map(|(p, v)| (8u8, p, v)),
    ];
    let chunk = (ssrc, proptest::collection::vec(item, 0..=3));
    let edit = prop_oneof![
        3 => (any::<u16>(), proptest::sample::select(vec![-3i8, -2, -1, 1, 2, 3, 4])).prop_map(|(i, d)| SdesEdit::LenDelta(i, d)),
        3 => (any::<u16>(), 0u8..=5).prop_map(|(i, k)| SdesEdit::PrefixLen(i, k)),
        2 => (any::<u16>(), 1u8..=255).prop_map(|(i, v)| SdesEdit::FillNonZero(i, v)),
        1 => Just(SdesEdit::DropLastWord),
        1 => Just(SdesEdit::AddZeroWord),
        1 => any::<[u8; 4]>().prop_map(SdesEdit::AddWord),
        1 => (0u8..=4).prop_map(SdesEdit::SetCount),
        1 => (1u8..=7).prop_map(SdesEdit::CutBytes),
    ];
    (proptest::collection::vec(chunk, 0..=3), proptest::collection::vec(edit, 0..=2), prop_oneof![3 => Just(0u8), 1 => Just(4u8), 1 => Just(8u8)])
        .prop_map(|(chunks, edits, pad)| {
            let mut body: Vec<u8> = Vec::new();
            let mut len_at = Vec::new();
            let mut prefix_at = Vec::new(); // (offset of the prefix length octet, item length)
            let mut fill_at = Vec::new();
            for (ssrc, items) in &chunks {
                body.extend_from_slice(&ssrc.to_be_bytes());
                for (ty, prefix, value) in items {
                    body.push(*ty);
                    len_at.push(body.len());
                    if *ty == 8 {
                        let l = 1 + prefix.len() + value.len();
                        body.push(l as u8);
                        prefix_at.push((body.len(), l));
                        body.push(prefix.len() as u8);
                        body.extend_from_slice(prefix);
                    } else {
                        body.push(value.len() as u8);
                    }
                    body.extend_from_slice(value);
                }
                body.push(0);
                while body.len() % 4 != 0 {
                    fill_at.push(body.len());
                    body.push(0);
                }
            }
            let mut sc = chunks.len() as u8;
            let pick = |i: u16, n: usize| (i as usize * n) >> 16;
            for e in &edits {
                match e {
                    SdesEdit::LenDelta(i, d) if !len_at.is_empty() => {
                        let o = len_at[pick(*i, len_at.len())];
                        if o < body.len() {
                            body[o] = body[o].wrapping_add(*d as u8);
                        }
                    }
                    SdesEdit::PrefixLen(i, k) if !prefix_at.is_empty() => {
                        let (o, l) = prefix_at[pick(*i, prefix_at.len())];
                        // boundary prefix lengths: len-2 .. len+1 and the maximum
                        if o >= body.len() {
                            continue;
                        }
                        body[o] = match k {
                            0 => (l as u8).wrapping_sub(2),
                            1 => (l as u8).wrapping_sub(1),
                            2 => l as u8,
                            3 => (l as u8).wrapping_add(1),
                            4 => 255,
                            _ => 0,
                        };
                    }
                    SdesEdit::FillNonZero(i, v) if !fill_at.is_empty() => {
                        let o = fill_at[pick(*i, fill_at.len())];
                        if o < body.len() {
                            body[o] = *v;
                        }
                    }
                    SdesEdit::DropLastWord if body.len() >= 4 => {
                        body.truncate(body.len() - 4);
                    }
                    SdesEdit::AddZeroWord => body.extend_from_slice(&[0, 0, 0, 0]),
                    SdesEdit::AddWord(w) => body.extend_from_slice(w),
                    SdesEdit::SetCount(c) => sc = *c,
                    SdesEdit::CutBytes(n) => {
                        let keep = body.len().saturating_sub(*n as usize);
                        body.truncate(keep);
                    }
                    _ => {}
                }
            }
            while body.len() % 4 != 0 {
                body.push(0);
            }
            Bytes(frame(&body, sc, pad))
        })
        .boxed()
}

fn well_formed() -> BoxedStrategy<Bytes> {
    gen::sdes_spec(false).prop_map(|s| Bytes(ref_encode(&PacketSpec::Sdes(s)))).boxed()
}

pub(crate) fn mutated_sdes() -> BoxedStrategy<Bytes> {
    (gen::sdes_spec(false), proptest::collection::vec(gen::edit(), 1..=3))
        .prop_map(|(s, edits)| {
            let mut b = ref_encode(&PacketSpec::Sdes(s));
            for e in &edits {
                gen::apply_edit(&mut b, e);
            }
            // keep it framed as an SDES packet where possible so that the tokeniser, not the framing, decides
            if b.len() >= 4 && b.len() % 4 == 0 {
                b[0] = b[0] & 0x3f | 0x80;
                b[1] = 202;
                let w = (b.len() / 4 - 1) as u16;
                b[2] = (w >> 8) as u8;
                b[3] = w as u8;
            }
            Bytes(b)
        })
        .boxed()
}

const ALPHA6: &[u8] = &[0, 1, 2, 3, 8, 255];
const ALPHA4: &[u8] = &[0, 1, 2, 8];

/// large and many-chunk packets: a single chunk beyond 64 KiB, a thousand short items, more chunks than the
/// 5-bit source count can announce (an either-zone: if accepted, all of them must be yielded), the same
/// with a defect behind the 31st chunk (must be rejected)
fn large_sdes() -> Vec<Bytes> {
    let item = |ty: u8, len: usize| ItemSpec { ty, prefix: vec![], value: "v".repeat(len) };
    let chunk_bytes = |c: &ChunkSpec| ref_encode_chunk(c);
    let mut v = Vec::new();
    // one chunk of 257 items of 255 bytes: 66 KiB
    v.push(Bytes(frame(&chunk_bytes(&ChunkSpec { ssrc: 0x0102_0304, items: (0..257).map(|i| item(1 + (i % 7) as u8, 253)).collect() }), 1, 0)));
    // the same, padded
    v.push(Bytes(frame(&chunk_bytes(&ChunkSpec { ssrc: 0x0102_0304, items: (0..260).map(|i| item(1 + (i % 7) as u8, 250 + i % 6)).collect() }), 1, 8)));
    // a thousand items of two bytes, PRIV items among them
    v.push(Bytes(frame(
        &chunk_bytes(&ChunkSpec { ssrc: 7, items: (0..1000).map(|i| if i % 5 == 0 { ItemSpec { ty: 8, prefix: vec![9], value: "w".into() } } else { item(2, 0) }).collect() }),
        1,
        0,
    )));
    // 31, 32, 33, 40, 64 chunks of one item each
    for n in [31usize, 32, 33, 40, 64] {
        let mut body = Vec::new();
        for k in 0..n {
            body.extend_from_slice(&chunk_bytes(&ChunkSpec { ssrc: k as u32, items: vec![item(1, k % 9)] }));
        }
        v.push(Bytes(frame(&body, (n & 31) as u8, 0)));
        v.push(Bytes(frame(&body, 31, 4)));
        // a defect in the last chunk: its item announces 200 bytes
        let mut bad = body.clone();
        let at = bad.len() - chunk_bytes(&ChunkSpec { ssrc: 0, items: vec![item(1, (n - 1) % 9)] }).len() + 5;
        bad[at] = 200;
        v.push(Bytes(frame(&bad, 31, 0)));
        // non-zero fill behind the last chunk's terminator
        if let Some(l) = body.last_mut() {
            if (n - 1) % 9 % 4 != 1 {
                *l = 0x55;
                v.push(Bytes(frame(&body, 31, 0)));
            }
        }
    }
    // 64 empty chunks
    v.push(Bytes(frame(&vec![0u8; 8 * 64], 0, 0)));
    v
}

pub fn c10(tier: Tier) -> Check {
    let mut legs: Vec<Box<dyn Leg>> = Vec::new();
    {
        let (n, at) = exhaustive_leg(ALPHA6, 8);
        legs.push(Box::new(SweepLeg { name: "exhaustive-bodies-{0,1,2,3,8,255}^8", n, at: Box::new(at), oracle: c10_oracle, exhaustive: true }));
    }
    if tier == Tier::Thorough {
        let (n, at) = exhaustive_leg(ALPHA4, 12);
        legs.push(Box::new(SweepLeg { name: "exhaustive-bodies-{0,1,2,8}^12", n, at: Box::new(at), oracle: c10_oracle, exhaustive: true }));
    }
    legs.push(Box::new(ListLeg { name: "large-and-many-chunk-packets", cases: large_sdes(), oracle: c10_oracle }));
    legs.push(Box::new(RandomLeg { name: "token-level-bodies", cases: tier.pick(600_000, 5_000_000), make: Box::new(token_level), oracle: c10_oracle }));
    legs.push(Box::new(RandomLeg { name: "well-formed-from-reference-encoder", cases: tier.pick(120_000, 1_000_000), make: Box::new(well_formed), oracle: c10_oracle }));
    legs.push(Box::new(RandomLeg { name: "mutated-well-formed", cases: tier.pick(180_000, 1_500_000), make: Box::new(mutated_sdes), oracle: c10_oracle }));
    Check {
        property: "C10",
        rule: "cases = byte strings framed as an SDES packet: bounded-exhaustive bodies over a small alphabet (x padding trailer x source count), token-level bodies with targeted defects (item length +-1..4, \
               PRIV prefix length len-2..len+1, non-zero fill, dropped/extra words, wrong source count), reference-encoded well-formed packets, mutated well-formed packets; \
               oracle: three-valued reference tokeniser: must-accept(tokens) => accepted with exactly those chunks/items/prefixes and each chunk's length() == its wire length; \
               must-reject (item overruns the packet, PRIV prefix overruns its item, non-zero fill) => rejected; either(tokens) (last list unterminated, source count != chunks) => if accepted then exactly the tokens; \
               non-trivial = body with >= 1 item or >= 2 chunks, or a must-reject string",
        assumptions: vec![
            "either-unchecked (nothing demanded beyond no crash): padding count not a multiple of 4 or larger than the body, an item reaching into the padding",
            "chunk length() is asserted only for well-formed packets, as the statement says",
        ],
        legs,
    }
}

