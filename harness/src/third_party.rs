//! A family of packet types defined OUTSIDE the crate, on the public helpers only
//! (`utils::parser::*`, `utils::writer::*`, the `RtcpPacket*` traits) — what a downstream user
//! writes (cf. /repo/tests/custom_packet.rs), generalised over type number and minimum length.

use rtcp_types::prelude::*;
use rtcp_types::utils::{parser, writer};
use rtcp_types::{Packet, RtcpPacket, RtcpParseError, RtcpWriteError, Unknown};

#[derive(Clone, Debug, PartialEq, Eq)]
pub struct Custom<'a, const PT: u8, const MIN: usize> {
    data: &'a [u8],
}

impl<'a, const PT: u8, const MIN: usize> RtcpPacket for Custom<'a, PT, MIN> {
    const MIN_PACKET_LEN: usize = MIN;
    const PACKET_TYPE: u8 = PT;
}

impl<'a, const PT: u8, const MIN: usize> RtcpPacketParser<'a> for Custom<'a, PT, MIN> {
    fn parse(data: &'a [u8]) -> Result<Self, RtcpParseError> {
        parser::check_packet::<Self>(data)?;
        Ok(Self { data })
    }

    fn header_data(&self) -> [u8; 4] {
        self.data[..4].try_into().unwrap()
    }
}

impl<'a, const PT: u8, const MIN: usize> Custom<'a, PT, MIN> {
    pub fn padding(&self) -> Option<u8> {
        parser::parse_padding(self.data)
    }
    pub fn ssrc(&self) -> Option<u32> {
        if MIN >= 8 {
            Some(parser::parse_ssrc(self.data))
        } else {
            None
        }
    }
    pub fn fixed(&self) -> &'a [u8] {
        if MIN >= 8 {
            &self.data[8..MIN]
        } else {
            &[]
        }
    }
    pub fn tail(&self) -> &'a [u8] {
        let pad = self.padding().unwrap_or(0) as usize;
        &self.data[MIN..self.data.len() - pad]
    }
    pub fn raw(&self) -> &'a [u8] {
        self.data
    }
}

#[derive(Debug, Clone)]
pub struct CustomBuilder<const PT: u8, const MIN: usize> {
    pub count: u8,
    pub ssrc: u32,
    pub fixed: Vec<u8>,
    pub tail: Vec<u8>,
    pub padding: u8,
}

impl<const PT: u8, const MIN: usize> RtcpPacketWriter for CustomBuilder<PT, MIN> {
    fn calculate_size(&self) -> Result<usize, RtcpWriteError> {
        writer::check_padding(self.padding)?;
        Ok(MIN + self.tail.len() + self.padding as usize)
    }

    fn write_into_unchecked(&self, buf: &mut [u8]) -> usize {
        writer::write_header_unchecked::<Custom<'static, PT, MIN>>(self.padding, self.count, buf);
        if MIN >= 8 {
            buf[4..8].copy_from_slice(&self.ssrc.to_be_bytes());
            buf[8..MIN].copy_from_slice(&self.fixed);
        }
        let mut end = MIN + self.tail.len();
        buf[MIN..end].copy_from_slice(&self.tail);
        end += writer::write_padding_unchecked(self.padding, &mut buf[end..]);
        end
    }

    fn get_padding(&self) -> Option<u8> {
        if self.padding == 0 {
            // both conventions occur downstream: "None when unpadded" and `Some(self.padding)`; the
            // odd-numbered members of the family use the second one
            if PT % 2 == 1 {
                Some(0)
            } else {
                None
            }
        } else {
            Some(self.padding)
        }
    }
}

impl<'a, const PT: u8, const MIN: usize> TryFrom<&'a Unknown<'a>> for Custom<'a, PT, MIN> {
    type Error = RtcpParseError;
    fn try_from(u: &'a Unknown<'a>) -> Result<Self, Self::Error> {
        Custom::parse(u.data())
    }
}

impl<'a, const PT: u8, const MIN: usize> TryFrom<&'a Packet<'a>> for Custom<'a, PT, MIN> {
    type Error = RtcpParseError;
    fn try_from(p: &'a Packet<'a>) -> Result<Self, Self::Error> {
        match p {
            Packet::Unknown(u) => Self::try_from(u),
            _ => Err(RtcpParseError::PacketTypeMismatch { actual: p.type_(), requested: PT }),
        }
    }
}

/// Dispatch a family index (see model::CUSTOM_FAMILY) to the const-generic instantiation.
#[macro_export]
macro_rules! with_family {
    ($idx:expr, $pt:ident, $min:ident, $body:block) => {
        match $idx {
            0 => {
                const $pt: u8 = 242;
                const $min: usize = 12;
                $body
            }
            1 => {
                const $pt: u8 = 192;
                const $min: usize = 4;
                $body
            }
            2 => {
                const $pt: u8 = 207;
                const $min: usize = 8;
                $body
            }
            3 => {
                const $pt: u8 = 209;
                const $min: usize = 28;
                $body
            }
            4 => {
                const $pt: u8 = 0;
                const $min: usize = 4;
                $body
            }
            _ => {
                const $pt: u8 = 255;
                const $min: usize = 16;
                $body
            }
        }
    };
}
