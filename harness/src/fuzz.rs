//! Glue between coverage-guided fuzzers (libFuzzer via cargo-fuzz) and the checks.
//!
//! Two input decodings, both deterministic functions of the fuzzer's bytes:
//!  * `Mode::Raw`  — byte-level properties: the bytes (nearly) ARE the case (`Check::raw_fuzz`);
//!  * `Mode::Spec` — byte 0 picks one of the check's random legs, the remaining bytes are served to
//!    that leg's proptest strategy through proptest's pass-through RNG, so the strategy that the
//!    PBT tier samples is the structured decoder the fuzzer mutates through.
//! The oracle is the one the PBT tier uses; a failure that is not a listed known finding makes
//! the fuzz target abort, so every crash artefact is a violation of the selected property.

use crate::oracle;
use crate::run::{self, Known, Stats, Tier, Verdict};
use serde_json::{json, Value};

#[derive(Clone, Copy, PartialEq, Eq, Debug)]
pub enum Mode {
    Raw,
    Spec,
}

/// one decoding of fuzzer bytes into a case of the leg `leg` (the leg's name is stored in replay
/// files so that `./check <id> --replay` re-runs the case through the same oracle)
pub struct Entry {
    pub leg: &'static str,
    pub f: fn(&[u8], &mut Stats) -> Option<(Verdict, Value)>,
}

fn js<T: serde::Serialize>(t: &T) -> Value {
    serde_json::to_value(t).unwrap_or(Value::Null)
}

mod table {
    use super::*;
    use crate::fuzzdec::{self as d, Cur};
    use crate::model::{violations, PacketSpec, CUSTOM_FAMILY};
    use crate::oracle::common::BuildCase;
    use crate::oracle::*;
    use crate::run::Bytes;

    type Out = Option<(Verdict, Value)>;

    // ---- raw decodings (byte-level properties) ----
    macro_rules! raw_bytes {
        ($name:ident, $oracle:path) => {
            pub fn $name(data: &[u8], st: &mut Stats) -> Out {
                let c = Bytes(data.to_vec());
                Some(($oracle(&c, st), js(&c)))
            }
        };
    }
    raw_bytes!(raw_c01, parse2::c01_oracle);
    raw_bytes!(raw_c08, parse::c08_oracle);
    raw_bytes!(raw_c09, parse2::c09_oracle);
    raw_bytes!(raw_c12, parse2::c12_oracle);
    raw_bytes!(raw_c18, parse::c18_oracle);

    pub fn raw_c10(data: &[u8], st: &mut Stats) -> Out {
        // byte 0: source count (5 bits), bit 5: add a padding trailer of 4*(1 + bits 6..7) bytes; the rest
        // (cut to whole words) is the SDES body
        let c = match data {
            [h, rest @ ..] => {
                let body = &rest[..rest.len() / 4 * 4];
                let pad = if h & 0x20 != 0 { 4 * (1 + (h >> 6)) } else { 0 };
                Bytes(sdes::frame(body, h & 31, pad))
            }
            [] => Bytes(vec![]),
        };
        Some((sdes::c10_oracle(&c, st), js(&c)))
    }

    pub fn raw_c11(data: &[u8], st: &mut Stats) -> Out {
        // last byte: number of next() calls after the expected end; the rest is the datagram
        let (extra, bytes) = match data.split_last() {
            Some((e, rest)) => (e % 6, rest),
            None => (0, data),
        };
        let c = parse2::CompoundCase { bytes: Bytes(bytes.to_vec()), extra };
        Some((parse2::c11_oracle(&c, st), js(&c)))
    }

    pub fn raw_c15(data: &[u8], st: &mut Stats) -> Out {
        // byte 0: bit 7 transport/payload, bit 6 raw F::parse, bit 5 padded, bits 0..4 format; the rest is the FCI
        let c = match data {
            [h, rest @ ..] => {
                let raw = h & 0x40 != 0;
                let fci = if raw { rest.to_vec() } else { rest[..rest.len() / 4 * 4].to_vec() };
                misc::FciCase { transport: h & 0x80 != 0, format: h & 31, fci: Bytes(fci), padding: if h & 0x20 != 0 && !raw { 4 } else { 0 }, raw }
            }
            [] => misc::FciCase { transport: true, format: 1, fci: Bytes(vec![]), padding: 0, raw: true },
        };
        Some((misc::c15_oracle(&c, st), js(&c)))
    }

    // ---- structured decodings (builder-side properties) ----
    fn valid(p: PacketSpec) -> Option<PacketSpec> {
        if violations(&p).is_empty() {
            Some(p)
        } else {
            None
        }
    }
    fn case(c: &mut Cur, spec: PacketSpec) -> BuildCase {
        let how = d::how(c);
        let salt = (c.u32() as u64) << 32 | c.u32() as u64;
        BuildCase { spec, how, salt }
    }
    macro_rules! valid_kind {
        ($name:ident, $lo:expr, $hi:expr, $oracle:path) => {
            pub fn $name(data: &[u8], st: &mut Stats) -> Out {
                let mut c = Cur::new(data);
                let spec = valid(d::leaf_in(&mut c, false, $lo, $hi))?;
                let bc = case(&mut c, spec);
                Some(($oracle(&bc, st), js(&bc)))
            }
        };
    }
    valid_kind!(spec_c02, 0, 3, roundtrip::c02_oracle);
    valid_kind!(spec_c03, 4, 6, roundtrip::c03_oracle);
    valid_kind!(spec_c04, 7, 11, roundtrip::c04_oracle);
    valid_kind!(spec_c05, 12, 16, roundtrip::c05_oracle);

    macro_rules! valid_any {
        ($name:ident, $oracle:path) => {
            pub fn $name(data: &[u8], st: &mut Stats) -> Out {
                let mut c = Cur::new(data);
                let spec = valid(d::packet(&mut c, false, true))?;
                let bc = case(&mut c, spec);
                Some(($oracle(&bc, st), js(&bc)))
            }
        };
    }
    macro_rules! any_config {
        ($name:ident, $oracle:path) => {
            pub fn $name(data: &[u8], st: &mut Stats) -> Out {
                let mut c = Cur::new(data);
                let inv = c.u8() % 4 != 0;
                let spec = d::packet(&mut c, inv, false);
                let bc = case(&mut c, spec);
                Some(($oracle(&bc, st), js(&bc)))
            }
        };
    }
    valid_any!(spec_c07, build::c07_oracle);
    valid_any!(spec_c06_valid, sizes::c06_oracle);
    valid_any!(spec_c17_valid, sizes::c17_oracle);
    any_config!(spec_c06, sizes::c06_oracle);
    any_config!(spec_c16, sizes::c16_oracle);
    any_config!(spec_c17, sizes::c17_oracle);

    // one builder object used repeatedly: the use history comes first (fixed length field), the configuration behind it
    fn reuse_case(data: &[u8]) -> Option<reuse::ReuseCase> {
        use reuse::UseOp;
        let mut c = Cur::new(data);
        let n = 2 + (c.u8() as usize) % 8;
        let ops = (0..n)
            .map(|_| {
                let (a, b) = (c.u8(), c.u8());
                match a % 14 {
                    0..=2 => UseOp::Size,
                    3 => UseOp::Padding,
                    4..=7 => UseOp::Exact,
                    8..=10 => UseOp::Short(b as u16 * 257),
                    11 | 12 => UseOp::Slack(b % 12),
                    _ => UseOp::Empty,
                }
            })
            .collect();
        let inv = c.u8() % 5 == 0;
        let spec = if inv { d::packet(&mut c, true, false) } else { valid(d::packet(&mut c, false, true))? };
        let how = d::how(&mut c);
        Some(reuse::ReuseCase { spec, how, ops })
    }
    macro_rules! reuse_entry {
        ($name:ident, $oracle:path) => {
            pub fn $name(data: &[u8], st: &mut Stats) -> Out {
                let rc = reuse_case(data)?;
                Some(($oracle(&rc, st), js(&rc)))
            }
        };
    }
    reuse_entry!(spec_reuse_c06, reuse::reuse_c06);
    reuse_entry!(spec_reuse_c07, reuse::reuse_c07);
    reuse_entry!(spec_reuse_c17, reuse::reuse_c17);

    pub fn spec_shared_fci(data: &[u8], st: &mut Stats) -> Out {
        let mut c = Cur::new(data);
        let n = 1 + (c.u8() as usize) % 5;
        let order = (0..n).map(|_| c.flag()).collect();
        let b = (c.v32(), c.v32(), c.padding(false));
        let a = match valid(d::leaf_in(&mut c, false, 12, 16))? {
            PacketSpec::Fb(f) => f,
            _ => return None,
        };
        let sc = reuse::SharedFciCase { a, b, order };
        Some((reuse::shared_fci_oracle(&sc, st), js(&sc)))
    }

    pub fn spec_c14(data: &[u8], st: &mut Stats) -> Out {
        let mut c = Cur::new(data);
        let (inv, only_last) = match c.u8() % 6 {
            0..=2 => (false, true),
            3 | 4 => (false, false),
            _ => (true, false),
        };
        let spec = d::compound(&mut c, inv, only_last);
        let mut bc = case(&mut c, spec);
        bc.how.single_compound = false;
        Some((sizes::c14_oracle(&bc, st), js(&bc)))
    }

    pub fn spec_c13(data: &[u8], st: &mut Stats) -> Out {
        let mut c = Cur::new(data);
        // every kind with content accessors (not unknown / third-party), unpadded
        let mut spec = d::leaf_in(&mut c, false, 0, 16);
        spec.set_padding(0);
        let spec = valid(spec)?;
        let pc = misc::PadCase { spec, from_builder: c.flag(), extension_words: if c.u8() % 4 == 0 { 1 + c.u8() % 7 } else { 0 } };
        Some((misc::c13_oracle(&pc, st), js(&pc)))
    }

    pub fn spec_c20(data: &[u8], st: &mut Stats) -> Out {
        let mut c = Cur::new(data);
        let inv = c.u8() % 3 == 0;
        // the history bytes come first (fixed length field) so that the configuration can grow behind them
        let n = (c.u8() as usize) % 97;
        let choices = c.bytes(n);
        let spec = d::leaf_in(&mut c, inv, 0, 18);
        let spec = if inv { spec } else { valid(spec)? };
        let hc = history::HistCase { spec, choices };
        Some((history::c20_oracle(&hc, st), js(&hc)))
    }

    pub fn spec_c19(data: &[u8], st: &mut Stats) -> Out {
        let mut c = Cur::new(data);
        let tc = match c.u8() % 10 {
            0 | 1 => {
                let family = c.u8() as usize % CUSTOM_FAMILY.len();
                let padding = if c.u8() % 4 == 0 { c.u8() } else { c.padding(false) };
                let words = match c.u8() {
                    0..=199 => 1 + (c.u8() as usize % 64),
                    _ => 65 + (c.u16() as usize % 960),
                };
                third::ThirdCase::Helper { family, padding, count: c.u8() & 31, words, fill: c.u8() }
            }
            2..=5 => {
                let family = c.u8() as usize % CUSTOM_FAMILY.len();
                let steer = c.u8() % 4 != 0;
                let mut b = c.rest();
                if b.len() >= 2 && steer {
                    b[1] = CUSTOM_FAMILY[family].0;
                }
                third::ThirdCase::Frame { family, bytes: Bytes(b) }
            }
            _ => {
                let spec = if c.flag() {
                    valid(d::leaf_in(&mut c, false, 19, 19))?
                } else {
                    match valid(d::leaf_in(&mut c, false, 17, 18))? {
                        PacketSpec::Unknown(mut u) => {
                            // C19 speaks about types the generic parser treats as unknown
                            if (200..=206).contains(&u.pt) {
                                u.pt = 192 + u.pt % 8;
                            }
                            PacketSpec::Unknown(u)
                        }
                        other => other,
                    }
                };
                let n = (c.u8() % 4) as usize;
                let mut neighbours = Vec::new();
                for _ in 0..n {
                    let mut nb = valid(d::leaf(&mut c, false, true))?;
                    if matches!(&nb, PacketSpec::Unknown(u) if (200..=206).contains(&u.pt)) {
                        return None;
                    }
                    nb.set_padding(0);
                    neighbours.push(nb);
                }
                third::ThirdCase::Packet { spec, neighbours, position: (c.u8() % 4) as usize }
            }
        };
        Some((third::c19_oracle(&tc, st), js(&tc)))
    }

    pub fn entries(id: &str, mode: Mode) -> Vec<Entry> {
        let e = |leg: &'static str, f: fn(&[u8], &mut Stats) -> Out| Entry { leg, f };
        match (id, mode) {
            ("C01", Mode::Raw) => vec![e("generated-strings", raw_c01)],
            ("C08", Mode::Raw) => vec![e("generated-strings", raw_c08)],
            ("C09", Mode::Raw) => vec![e("generated-strings", raw_c09)],
            ("C12", Mode::Raw) => vec![e("generated-strings", raw_c12)],
            ("C18", Mode::Raw) => vec![e("generated-strings", raw_c18)],
            ("C10", Mode::Raw) => vec![e("token-level-bodies", raw_c10)],
            ("C11", Mode::Raw) => vec![e("generated-datagrams", raw_c11)],
            ("C15", Mode::Raw) => vec![e("random-fci", raw_c15)],
            ("C02", Mode::Spec) => vec![e("random-sr-rr", spec_c02)],
            ("C03", Mode::Spec) => vec![e("random-sdes", spec_c03)],
            ("C04", Mode::Spec) => vec![e("random-bye-app", spec_c04)],
            ("C05", Mode::Spec) => vec![e("random-feedback", spec_c05)],
            ("C06", Mode::Spec) => vec![e("random-configs", spec_c06), e("valid-configs", spec_c06_valid), e("same-builder-used-repeatedly", spec_reuse_c06)],
            ("C07", Mode::Spec) => vec![e("random-configs", spec_c07), e("same-builder-used-repeatedly", spec_reuse_c07)],
            ("C13", Mode::Spec) => vec![e("random-packets-x-63-paddings", spec_c13)],
            ("C14", Mode::Spec) => vec![e("random-member-lists", spec_c14)],
            ("C16", Mode::Spec) => vec![e("random-configs", spec_c16)],
            ("C17", Mode::Spec) => vec![e("random-configs", spec_c17), e("valid-configs", spec_c17_valid), e("same-builder-used-repeatedly", spec_reuse_c17)],
            ("C19", Mode::Spec) => vec![e("random-third-party", spec_c19)],
            ("C20", Mode::Spec) => vec![e("any-configs-x-histories", spec_c20), e("any-configs-x-histories", spec_c20), e("borrowed-fci-builder-shared-by-two-packets", spec_shared_fci)],
            _ => vec![],
        }
    }
}

/// which decoding a property's campaign uses
pub fn mode_of(id: &str) -> Option<Mode> {
    for m in [Mode::Raw, Mode::Spec] {
        if !table::entries(id, m).is_empty() {
            return Some(m);
        }
    }
    None
}

pub struct Session {
    pub property: &'static str,
    pub mode: Mode,
    entries: Vec<Entry>,
    known: Known,
    pub execs: u64,
    pub nontrivial: u64,
    pub known_hits: u64,
}

pub struct Outcome {
    pub leg: String,
    pub case: Value,
    pub verdict: Verdict,
    pub nontrivial: bool,
}

fn static_id(id: &str) -> Option<&'static str> {
    oracle::ALL.iter().copied().find(|x| *x == id)
}

impl Session {
    pub fn new(id: &str, mode: Mode) -> Option<Session> {
        let property = static_id(id)?;
        let entries = table::entries(property, mode);
        if entries.is_empty() {
            return None;
        }
        // the leg names must exist in the check (replay files refer to them)
        let check = oracle::check_for(property, Tier::Quick)?;
        for e in &entries {
            assert!(check.legs.iter().any(|l| l.name() == e.leg), "fuzz table names leg {:?}, which check {property} does not have", e.leg);
        }
        Some(Session { property, mode, entries, known: Known::load(), execs: 0, nontrivial: 0, known_hits: 0 })
    }

    /// decode and judge one fuzzer input; `None` when the bytes decode to no case of the domain
    pub fn one(&mut self, data: &[u8]) -> Option<Outcome> {
        self.execs += 1;
        // with several decodings byte 0 selects one
        let (entry, rest) = if self.entries.len() == 1 {
            (&self.entries[0], data)
        } else {
            match data.split_first() {
                Some((s, r)) => (&self.entries[*s as usize % self.entries.len()], r),
                None => (&self.entries[0], data),
            }
        };
        let mut st = Stats::default();
        run::step("oracle");
        let f = entry.f;
        let (verdict, case) = match run::guard(|| f(rest, &mut st)) {
            Ok(Some(x)) => x,
            Ok(None) => return None,
            Err(c) => (
                Err(run::Failure::new(format!("panic:{}", c.step), format!("unwind during {}: {}", c.step, c.message))),
                json!({ "undecoded_fuzzer_bytes": crate::model::hex(data) }),
            ),
        };
        let nontrivial = st.take_nontrivial();
        if nontrivial {
            self.nontrivial += 1;
        }
        Some(Outcome { leg: entry.leg.to_string(), case, verdict, nontrivial })
    }

    /// the fuzz-target body: returns Err(replay json) when the input violates the property
    pub fn judge(&mut self, data: &[u8]) -> Result<(), Value> {
        let o = match self.one(data) {
            Some(o) => o,
            None => return Ok(()),
        };
        match o.verdict {
            Ok(()) => Ok(()),
            Err(f) if self.known.is_known(self.property, &f.signature) => {
                self.known_hits += 1;
                Ok(())
            }
            Err(f) => Err(json!({
                "property": self.property,
                "leg": o.leg,
                "fuzz_mode": format!("{:?}", self.mode),
                "case": o.case,
                "failure": { "signature": f.signature, "detail": f.detail },
            })),
        }
    }
}

/// `verif <id> --fuzz-artifact <raw|spec> <file>`: decode a libFuzzer artefact through the same path,
/// write a replay file for it and report. Exit code as for a check.
pub fn convert_artifact(id: &str, mode: Mode, path: &str) -> i32 {
    let data = match std::fs::read(path) {
        Ok(d) => d,
        Err(e) => {
            eprintln!("cannot read {path}: {e}");
            return 2;
        }
    };
    let mut s = match Session::new(id, mode) {
        Some(s) => s,
        None => {
            eprintln!("property {id} has no {mode:?} fuzz decoding");
            return 2;
        }
    };
    match s.judge(&data) {
        Ok(()) => {
            println!("OK property={id} fuzz artefact {path} holds (or is a listed known finding)");
            0
        }
        Err(v) => {
            let text = serde_json::to_string_pretty(&v).unwrap();
            let dir = format!("{}/replays", run::verif_root());
            let _ = std::fs::create_dir_all(&dir);
            use std::hash::{Hash, Hasher};
            let mut h = std::collections::hash_map::DefaultHasher::new();
            text.hash(&mut h);
            let out = format!("{dir}/{id}-fuzz-{:016x}.json", h.finish());
            let _ = std::fs::write(&out, &text);
            eprintln!("signature: {}", v["failure"]["signature"].as_str().unwrap_or(""));
            eprintln!("detail:    {}", run::one_line(v["failure"]["detail"].as_str().unwrap_or(""), 2000));
            println!("VIOLATION property={id} replay={out}");
            1
        }
    }
}

/// `verif <id> --corpus <raw|spec> <dir>...`: run every file of the directories through the oracle
/// in-process (the quick tier's replay of the committed seed corpus). Returns (files, nontrivial, first violation)
pub fn run_corpus(id: &str, mode: Mode, dirs: &[String]) -> Result<(u64, u64, u64, Option<(String, Value)>), String> {
    let mut s = Session::new(id, mode).ok_or_else(|| format!("property {id} has no {mode:?} fuzz decoding"))?;
    let mut files = 0u64;
    for d in dirs {
        let mut names: Vec<_> = match std::fs::read_dir(d) {
            Ok(r) => r.filter_map(|e| e.ok()).map(|e| e.path()).filter(|p| p.is_file()).collect(),
            Err(_) => continue,
        };
        names.sort();
        for p in names {
            let data = match std::fs::read(&p) {
                Ok(d) => d,
                Err(_) => continue,
            };
            files += 1;
            if let Err(v) = s.judge(&data) {
                return Ok((files, s.nontrivial, s.known_hits, Some((p.display().to_string(), v))));
            }
        }
    }
    Ok((files, s.nontrivial, s.known_hits, None))
}

/// Deterministic seed inputs for a raw-mode campaign: reference-encoded packets of every type, the
/// self-test's golden vectors (the repository's own test images), compounds of them, each converted
/// to the property's raw decoding. A pure function of the code (fixed RNG seed).
pub fn seed_inputs(id: &str, n: usize) -> Vec<Vec<u8>> {
    use crate::gen;
    use crate::model::{ref_encode, unhex, PacketSpec};
    use proptest::strategy::{Strategy, ValueTree};
    use proptest::test_runner::{Config, RngAlgorithm, TestRng, TestRunner};
    let mut seed = [0u8; 32];
    for (i, b) in id.bytes().enumerate() {
        seed[i % 32] ^= b.wrapping_mul(31).wrapping_add(i as u8);
    }
    let rng = TestRng::from_seed(RngAlgorithm::ChaCha, &seed);
    let mut runner = TestRunner::new_with_rng(Config { failure_persistence: None, ..Config::default() }, rng);
    let mut draw = |s: &gen::BS<Vec<u8>>| s.new_tree(&mut runner).ok().map(|t| t.current());
    let mut images: Vec<Vec<u8>> = Vec::new();
    for (_, spec, hexs) in crate::selftest::vectors() {
        if let Some(b) = unhex(hexs) {
            images.push(b);
        }
        images.push(ref_encode(&spec));
    }
    let valid = gen::valid_image();
    let concat = gen::concat_bytes();
    let sdes = gen::sdes_spec(false).prop_map(|s| ref_encode(&PacketSpec::Sdes(s))).boxed();
    let fb = gen::fb_packet();
    let mut out = Vec::new();
    let mut k = 0usize;
    while out.len() < n {
        k += 1;
        let golden = images.get(k - 1).cloned();
        let item = match id {
            "C10" => {
                let b = match golden.filter(|g| g.len() >= 4 && g[1] == 202) {
                    Some(g) => g,
                    None => match draw(&sdes) {
                        Some(b) => b,
                        None => continue,
                    },
                };
                let pad = if b[0] & 0x20 != 0 { *b.last().unwrap() as usize } else { 0 };
                if pad > 16 || pad % 4 != 0 || pad + 4 > b.len() {
                    continue;
                }
                let mut v = vec![(b[0] & 31) | if pad > 0 { 0x20 | (((pad / 4 - 1) as u8) << 6) } else { 0 }];
                v.extend_from_slice(&b[4..b.len() - pad]);
                v
            }
            "C11" => {
                let mut b = match golden {
                    Some(g) => g,
                    None => match draw(&concat) {
                        Some(b) => b,
                        None => continue,
                    },
                };
                b.push((k % 6) as u8);
                b
            }
            "C15" => {
                let b = match golden.filter(|g| g.len() >= 12 && (g[1] == 205 || g[1] == 206)) {
                    Some(g) => g,
                    None => match draw(&fb) {
                        Some(b) => b,
                        None => continue,
                    },
                };
                let pad = if b[0] & 0x20 != 0 { *b.last().unwrap() as usize } else { 0 };
                if pad != 0 && pad != 4 {
                    continue;
                }
                let mut v = vec![(b[0] & 31) | if b[1] == 205 { 0x80 } else { 0 } | if pad > 0 { 0x20 } else { 0 }];
                v.extend_from_slice(&b[12..b.len() - pad]);
                v
            }
            _ => match golden {
                Some(g) => g,
                None => match draw(if k % 4 == 0 { &concat } else { &valid }) {
                    Some(b) => b,
                    None => continue,
                },
            },
        };
        if item.len() <= 4096 {
            out.push(item);
        }
        if k > 20 * n + 1000 {
            break;
        }
    }
    out
}

/// `verif <id> --write-seeds <raw|spec> <dir> [n]`
pub fn write_seeds(id: &str, mode: Mode, dir: &str, n: usize) -> i32 {
    if std::fs::create_dir_all(dir).is_err() {
        eprintln!("cannot create {dir}");
        return 2;
    }
    let items: Vec<Vec<u8>> = match mode {
        Mode::Raw => seed_inputs(id, n),
        // for the structured decoding the bytes are RNG output: splitmix streams of assorted lengths,
        // one per (leg selector, length) so that every leg starts with inputs long enough to build big cases
        Mode::Spec => (0..n)
            .map(|i| {
                let len = [16usize, 64, 256, 1024, 4096][i % 5];
                let mut x = 0x9e37_79b9_7f4a_7c15u64.wrapping_mul(i as u64 + 1);
                let mut v = Vec::with_capacity(len + 1);
                v.push((i / 5) as u8);
                while v.len() < len + 1 {
                    x = x.wrapping_add(0x9e37_79b9_7f4a_7c15);
                    let mut z = x;
                    z = (z ^ (z >> 30)).wrapping_mul(0xbf58_476d_1ce4_e5b9);
                    z = (z ^ (z >> 27)).wrapping_mul(0x94d0_49bb_1331_11eb);
                    v.extend_from_slice(&(z ^ (z >> 31)).to_le_bytes());
                }
                v
            })
            .collect(),
    };
    for (i, it) in items.iter().enumerate() {
        if std::fs::write(format!("{dir}/seed-{i:04}"), it).is_err() {
            return 2;
        }
    }
    println!("wrote {} seed inputs for {id} ({mode:?}) to {dir}", items.len());
    0
}
