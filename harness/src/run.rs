//! The runner: seeds, workers, sweeps, shrinking, known findings, evidence, replay.
//!
//! A *check* (one per property) is a list of *legs*; a leg is a generator (a proptest strategy
//! or a bounded-exhaustive sweep given as `index -> case`) plus an oracle
//! `fn(&case, &mut Stats) -> Result<(), Failure>`.

use proptest::strategy::{BoxedStrategy, Strategy, ValueTree};
use proptest::test_runner::{Config, RngAlgorithm, TestRng, TestRunner};
use serde::de::DeserializeOwned;
use serde::Serialize;
use serde_json::{json, Value};
use std::collections::hash_map::DefaultHasher;
use std::collections::{BTreeMap, HashSet};
use std::hash::{Hash, Hasher};
use std::panic::{catch_unwind, AssertUnwindSafe};
use std::sync::atomic::{AtomicU64, Ordering};
use std::sync::{Arc, Mutex};
use std::time::Instant;

pub const WORKERS: u64 = 8;
const MAX_SAMPLES: usize = 6;
const MAX_HASHES: usize = 6_000_000;
/// where KNOWN_FINDINGS.txt is read and evidence/ and replays/ are written. Always /verif for the
/// registered checks; the environment override exists so that the mutation-testing script
/// (tools/mutants.sh) can run the same binary against a patched scratch copy without touching
/// /verif/evidence.
pub fn verif_root() -> String {
    std::env::var("VERIF_ROOT").unwrap_or_else(|_| "/verif".to_string())
}

#[derive(Clone, Copy, Debug, PartialEq, Eq)]
pub enum Tier {
    Quick,
    Thorough,
}

impl Tier {
    pub fn name(self) -> &'static str {
        match self {
            Tier::Quick => "quick",
            Tier::Thorough => "thorough",
        }
    }
    /// pick by tier
    pub fn pick<T>(self, quick: T, thorough: T) -> T {
        match self {
            Tier::Quick => quick,
            Tier::Thorough => thorough,
        }
    }
}

#[derive(Clone, Debug, PartialEq, Eq)]
pub struct Failure {
    /// failing call site + input class; never the property alone, never a line number
    pub signature: String,
    pub detail: String,
}

impl Failure {
    pub fn new(signature: impl Into<String>, detail: impl Into<String>) -> Self {
        // inputs go up to 256 KiB; the case itself is saved next to the failure, so the prose is capped
        let mut detail: String = detail.into();
        if detail.len() > 6000 {
            let mut cut = 6000;
            while !detail.is_char_boundary(cut) {
                cut -= 1;
            }
            detail.truncate(cut);
            detail.push_str("… [truncated]");
        }
        Failure { signature: signature.into(), detail }
    }
}

pub type Verdict = Result<(), Failure>;

#[macro_export]
macro_rules! fail {
    ($sig:expr, $($arg:tt)*) => {
        return Err($crate::run::Failure::new($sig, format!($($arg)*)))
    };
}

#[macro_export]
macro_rules! ensure {
    ($cond:expr, $sig:expr, $($arg:tt)*) => {
        if !($cond) {
            return Err($crate::run::Failure::new($sig, format!($($arg)*)));
        }
    };
}

// ---------------------------------------------------------------------------------------------
// panic capture
// ---------------------------------------------------------------------------------------------

thread_local! {
    static LAST_PANIC: std::cell::RefCell<Option<String>> = const { std::cell::RefCell::new(None) };
    static STEP: std::cell::Cell<&'static str> = const { std::cell::Cell::new("") };
    static QUIET: std::cell::Cell<bool> = const { std::cell::Cell::new(false) };
}

pub fn install_panic_hook() {
    let default = std::panic::take_hook();
    std::panic::set_hook(Box::new(move |info| {
        let quiet = QUIET.with(|q| q.get());
        if quiet {
            let msg = if let Some(s) = info.payload().downcast_ref::<&str>() {
                s.to_string()
            } else if let Some(s) = info.payload().downcast_ref::<String>() {
                s.clone()
            } else {
                "<non-string panic payload>".to_string()
            };
            let loc = info.location().map(|l| format!("{}:{}", l.file(), l.line())).unwrap_or_default();
            LAST_PANIC.with(|p| *p.borrow_mut() = Some(format!("{msg} @ {loc}")));
        } else {
            default(info);
        }
    }));
}

/// Name the call into rtcp-types that is about to be made (used in the signature of a panic).
#[inline]
pub fn step(name: &'static str) {
    STEP.with(|s| s.set(name));
}

pub fn current_step() -> &'static str {
    STEP.with(|s| s.get())
}

#[derive(Clone, Debug, PartialEq)]
pub struct Caught {
    pub step: &'static str,
    pub message: String,
}

/// Run `f`, turning an unwind into `Err(Caught)`.
pub fn guard<T>(f: impl FnOnce() -> T) -> Result<T, Caught> {
    let prev = QUIET.with(|q| q.replace(true));
    let r = catch_unwind(AssertUnwindSafe(f));
    QUIET.with(|q| q.set(prev));
    match r {
        Ok(v) => Ok(v),
        Err(_) => {
            let message = LAST_PANIC.with(|p| p.borrow_mut().take()).unwrap_or_else(|| "<panic>".into());
            Err(Caught { step: current_step(), message })
        }
    }
}

/// `guard` for oracles: a panic becomes a Failure whose signature names the step.
pub fn no_panic<T>(what: &'static str, f: impl FnOnce() -> T) -> Result<T, Failure> {
    step(what);
    guard(f).map_err(|c| Failure::new(format!("panic:{}", c.step), format!("{} panicked: {}", c.step, c.message)))
}

// ---------------------------------------------------------------------------------------------
// stats
// ---------------------------------------------------------------------------------------------

#[derive(Default)]
pub struct Stats {
    pub evaluations: u64,
    pub nontrivial_total: u64,
    pub hashes: HashSet<u64>,
    pub hash_cap_hit: bool,
    pub samples: Vec<Value>,
    pub classes: BTreeMap<String, u64>,
    /// signature -> (hits, first detail)
    pub known: BTreeMap<String, (u64, String)>,
    flag_nontrivial: bool,
}

impl Stats {
    /// count the current case in a class of the generator-distribution histogram
    pub fn label(&mut self, class: &str) {
        if let Some(c) = self.classes.get_mut(class) {
            *c += 1;
        } else {
            self.classes.insert(class.to_string(), 1);
        }
    }
    pub fn label_if(&mut self, cond: bool, class: &str) {
        if cond {
            self.label(class)
        }
    }
    /// the current case is non-trivial by the property's rule
    pub fn nontrivial(&mut self) {
        self.flag_nontrivial = true;
    }
    pub fn take_nontrivial(&mut self) -> bool {
        std::mem::replace(&mut self.flag_nontrivial, false)
    }
    fn merge(&mut self, o: Stats) {
        self.evaluations += o.evaluations;
        self.nontrivial_total += o.nontrivial_total;
        self.hash_cap_hit |= o.hash_cap_hit;
        for h in o.hashes {
            if self.hashes.len() < MAX_HASHES {
                self.hashes.insert(h);
            } else {
                self.hash_cap_hit = true;
            }
        }
        for s in o.samples {
            if self.samples.len() < MAX_SAMPLES {
                self.samples.push(s);
            }
        }
        for (k, v) in o.classes {
            *self.classes.entry(k).or_insert(0) += v;
        }
        for (k, (n, d)) in o.known {
            let e = self.known.entry(k).or_insert((0, d));
            e.0 += n;
        }
    }
    fn after_case<T: Hash + Serialize>(&mut self, case: &T, want_samples: usize) {
        self.evaluations += 1;
        if self.flag_nontrivial {
            self.flag_nontrivial = false;
            self.nontrivial_total += 1;
            if self.hashes.len() < MAX_HASHES {
                let mut h = DefaultHasher::new();
                case.hash(&mut h);
                let new = self.hashes.insert(h.finish());
                if new && self.samples.len() < want_samples {
                    if let Ok(v) = serde_json::to_value(case) {
                        self.samples.push(truncate_value(v));
                    }
                }
            } else {
                self.hash_cap_hit = true;
            }
        }
    }
}

fn truncate_value(v: Value) -> Value {
    let s = v.to_string();
    if s.chars().count() > 1500 {
        Value::String(format!("{}… ({} bytes of JSON)", s.chars().take(1500).collect::<String>(), s.len()))
    } else {
        v
    }
}

// ---------------------------------------------------------------------------------------------
// known findings
// ---------------------------------------------------------------------------------------------

#[derive(Default, Clone)]
pub struct Known {
    /// (property, signature) -> description
    pub findings: BTreeMap<(String, String), String>,
}

impl Known {
    pub fn load() -> Known {
        let mut k = Known::default();
        let path = format!("{}/KNOWN_FINDINGS.txt", verif_root());
        if let Ok(text) = std::fs::read_to_string(path) {
            for line in text.lines() {
                let line = line.trim();
                if let Some(rest) = line.strip_prefix("finding:") {
                    let mut prop = None;
                    let mut sig = None;
                    let mut words = Vec::new();
                    for w in rest.split_whitespace() {
                        if let Some(p) = w.strip_prefix("property=") {
                            if prop.is_none() {
                                prop = Some(p.to_string());
                                continue;
                            }
                        }
                        if let Some(s) = w.strip_prefix("signature=") {
                            if sig.is_none() {
                                sig = Some(s.to_string());
                                continue;
                            }
                        }
                        words.push(w);
                    }
                    if let (Some(p), Some(s)) = (prop, sig) {
                        k.findings.insert((p, s), words.join(" "));
                    }
                }
            }
        }
        k
    }
    pub fn is_known(&self, prop: &str, sig: &str) -> bool {
        self.findings.contains_key(&(prop.to_string(), sig.to_string()))
    }
}

// ---------------------------------------------------------------------------------------------
// legs
// ---------------------------------------------------------------------------------------------

pub struct RunEnv {
    pub property: &'static str,
    pub tier: Tier,
    pub seed: u64,
    pub known: Known,
    pub watch: Arc<Watch>,
}

pub struct LegOutcome {
    pub name: String,
    pub kind: &'static str,
    pub exhaustive: bool,
    pub planned: u64,
    pub stats: Stats,
    /// (case as JSON, failure)
    pub failure: Option<(Value, Failure)>,
    pub wall_s: f64,
}

pub trait Leg: Send + Sync {
    fn name(&self) -> &str;
    fn run(&self, env: &RunEnv, leg_index: u64) -> LegOutcome;
    fn replay(&self, case: &Value) -> Result<Verdict, String>;
}


pub type Oracle<T> = fn(&T, &mut Stats) -> Verdict;

pub struct RandomLeg<T: 'static> {
    pub name: &'static str,
    pub cases: u64,
    pub make: Box<dyn Fn() -> BoxedStrategy<T> + Send + Sync>,
    pub oracle: Oracle<T>,
}

pub struct SweepLeg<T: 'static> {
    pub name: &'static str,
    pub n: u64,
    pub at: Box<dyn Fn(u64) -> T + Send + Sync>,
    pub oracle: Oracle<T>,
    /// the enumerated space is complete for the dimensions named in the leg's description
    pub exhaustive: bool,
}

pub trait CaseT: Clone + std::fmt::Debug + Hash + Serialize + DeserializeOwned + Send + 'static {}
impl<T: Clone + std::fmt::Debug + Hash + Serialize + DeserializeOwned + Send + 'static> CaseT for T {}

fn mix(seed: u64, prop: &str, leg: u64, worker: u64) -> [u8; 32] {
    // fixed mixing function of (VERIF_SEED, property id, leg, worker): splitmix64 chain
    let mut x = seed ^ 0x9e37_79b9_7f4a_7c15;
    let mut next = |add: u64| {
        x = x.wrapping_add(add).wrapping_add(0x9e37_79b9_7f4a_7c15);
        let mut z = x;
        z = (z ^ (z >> 30)).wrapping_mul(0xbf58_476d_1ce4_e5b9);
        z = (z ^ (z >> 27)).wrapping_mul(0x94d0_49bb_1331_11eb);
        z ^ (z >> 31)
    };
    let mut p = 0u64;
    for b in prop.bytes() {
        p = p.wrapping_mul(131).wrapping_add(b as u64);
    }
    let a = next(p);
    let b = next(leg.wrapping_mul(0x1000_0001));
    let c = next(worker.wrapping_mul(0x2000_0003));
    let d = next(a ^ b ^ c);
    let mut out = [0u8; 32];
    out[0..8].copy_from_slice(&a.to_le_bytes());
    out[8..16].copy_from_slice(&b.to_le_bytes());
    out[16..24].copy_from_slice(&c.to_le_bytes());
    out[24..32].copy_from_slice(&d.to_le_bytes());
    out
}

/// evaluate the oracle on one case, catching unwinds of the harness/oracle itself
fn eval<T>(oracle: Oracle<T>, case: &T, stats: &mut Stats) -> Verdict {
    step("oracle");
    match guard(|| oracle(case, stats)) {
        Ok(v) => v,
        Err(c) => Err(Failure::new(format!("panic:{}", c.step), format!("unwind during {}: {}", c.step, c.message))),
    }
}

/// known findings are counted and treated as a pass
fn triage(env: &RunEnv, stats: &mut Stats, v: Verdict) -> Verdict {
    match v {
        Err(f) if env.known.is_known(env.property, &f.signature) => {
            let e = stats.known.entry(f.signature.clone()).or_insert((0, f.detail.clone()));
            e.0 += 1;
            Ok(())
        }
        other => other,
    }
}

impl<T: CaseT> Leg for RandomLeg<T> {
    fn name(&self) -> &str {
        self.name
    }

    fn run(&self, env: &RunEnv, leg_index: u64) -> LegOutcome {
        let t0 = Instant::now();
        let min_fail = AtomicU64::new(u64::MAX);
        // VERIF_CASES_DIV is a debugging knob (coverage-instrumented builds are slow); the registered
        // commands never set it
        let div = std::env::var("VERIF_CASES_DIV").ok().and_then(|v| v.parse::<u64>().ok()).filter(|d| *d > 0).unwrap_or(1);
        let per_worker = (self.cases / div + WORKERS - 1) / WORKERS;
        let results: Vec<(Stats, Option<(u64, Failure)>)> = std::thread::scope(|sc| {
            let mut hs = Vec::new();
            for w in 0..WORKERS {
                let min_fail = &min_fail;
                hs.push(sc.spawn(move || {
                    let strategy = (self.make)();
                    let rng = TestRng::from_seed(RngAlgorithm::ChaCha, &mix(env.seed, env.property, leg_index, w));
                    let mut runner = TestRunner::new_with_rng(Config { failure_persistence: None, ..Config::default() }, rng);
                    let mut stats = Stats::default();
                    let mut failure = None;
                    let slot = env.watch.slot(w as usize);
                    for i in 0..per_worker {
                        let global = i * WORKERS + w;
                        if global > min_fail.load(Ordering::Relaxed) {
                            break;
                        }
                        let tree = match strategy.new_tree(&mut runner) {
                            Ok(t) => t,
                            Err(_) => continue,
                        };
                        let case = tree.current();
                        slot.begin(&case);
                        let v = eval(self.oracle, &case, &mut stats);
                        slot.end();
                        stats.after_case(&case, MAX_SAMPLES);
                        if let Err(f) = triage(env, &mut stats, v) {
                            min_fail.fetch_min(global, Ordering::Relaxed);
                            failure = Some((i, f));
                            break;
                        }
                    }
                    (stats, failure)
                }));
            }
            hs.into_iter().map(|h| h.join().expect("worker thread died")).collect()
        });

        let mut stats = Stats::default();
        let mut first: Option<(u64, u64, Failure)> = None; // (global, worker, failure)
        for (w, (s, f)) in results.into_iter().enumerate() {
            stats.merge(s);
            if let Some((i, f)) = f {
                let global = i * WORKERS + w as u64;
                if first.as_ref().map(|x| global < x.0).unwrap_or(true) {
                    first = Some((global, w as u64, f));
                }
            }
        }

        let failure = first.map(|(global, w, f)| {
            // regenerate that worker's sequence up to the failing case, then shrink it
            let i = global / WORKERS;
            let strategy = (self.make)();
            let rng = TestRng::from_seed(RngAlgorithm::ChaCha, &mix(env.seed, env.property, leg_index, w));
            let mut runner = TestRunner::new_with_rng(Config { failure_persistence: None, ..Config::default() }, rng);
            let mut tree = None;
            for _ in 0..=i {
                tree = strategy.new_tree(&mut runner).ok();
            }
            match tree {
                Some(mut tree) => {
                    let (case, f) = shrink(&mut tree, self.oracle, env, f);
                    (serde_json::to_value(&case).unwrap_or(Value::Null), f)
                }
                None => (Value::Null, f),
            }
        });

        LegOutcome {
            name: self.name.to_string(),
            kind: "random (proptest strategy)",
            exhaustive: false,
            planned: per_worker * WORKERS,
            stats,
            failure,
            wall_s: t0.elapsed().as_secs_f64(),
        }
    }

    fn replay(&self, case: &Value) -> Result<Verdict, String> {
        let case: T = serde_json::from_value(case.clone()).map_err(|e| format!("cannot decode case: {e}"))?;
        let mut stats = Stats::default();
        Ok(eval(self.oracle, &case, &mut stats))
    }
}

fn shrink<T: CaseT>(
    tree: &mut Box<dyn ValueTree<Value = T>>,
    oracle: Oracle<T>,
    env: &RunEnv,
    first: Failure,
) -> (T, Failure) {
    let mut scratch = Stats::default();
    let mut best = (tree.current(), first);
    // make sure the regenerated case really is the failing one
    let v0 = eval(oracle, &best.0, &mut scratch);
    match triage(env, &mut scratch, v0) {
        Err(f) => best.1 = f,
        Ok(()) => return best,
    }
    let mut iters = 0u32;
    if !tree.simplify() {
        return best;
    }
    loop {
        iters += 1;
        if iters > 20_000 {
            break;
        }
        let cur = tree.current();
        let v = eval(oracle, &cur, &mut scratch);
        let v = triage(env, &mut scratch, v);
        match v {
            Err(f) => {
                best = (cur, f);
                if !tree.simplify() {
                    break;
                }
            }
            Ok(()) => {
                if !tree.complicate() {
                    break;
                }
            }
        }
    }
    best
}

impl<T: CaseT> Leg for SweepLeg<T> {
    fn name(&self) -> &str {
        self.name
    }

    fn run(&self, env: &RunEnv, _leg_index: u64) -> LegOutcome {
        let t0 = Instant::now();
        let min_fail = AtomicU64::new(u64::MAX);
        let results: Vec<(Stats, Option<(u64, T, Failure)>)> = std::thread::scope(|sc| {
            let mut hs = Vec::new();
            for w in 0..WORKERS {
                let min_fail = &min_fail;
                hs.push(sc.spawn(move || {
                    let mut stats = Stats::default();
                    let mut failure = None;
                    let slot = env.watch.slot(w as usize);
                    let mut idx = w;
                    while idx < self.n {
                        if idx > min_fail.load(Ordering::Relaxed) {
                            break;
                        }
                        let case = (self.at)(idx);
                        slot.begin(&case);
                        let v = eval(self.oracle, &case, &mut stats);
                        slot.end();
                        // samples: spread over the sweep rather than its first points
                        stats.after_case(&case, 1);
                        if let Err(f) = triage(env, &mut stats, v) {
                            min_fail.fetch_min(idx, Ordering::Relaxed);
                            failure = Some((idx, case, f));
                            break;
                        }
                        idx += WORKERS;
                    }
                    (stats, failure)
                }));
            }
            hs.into_iter().map(|h| h.join().expect("worker thread died")).collect()
        });
        let mut stats = Stats::default();
        let mut first: Option<(u64, T, Failure)> = None;
        for (s, f) in results {
            stats.merge(s);
            if let Some((idx, c, f)) = f {
                if first.as_ref().map(|x| idx < x.0).unwrap_or(true) {
                    first = Some((idx, c, f));
                }
            }
        }
        LegOutcome {
            name: self.name.to_string(),
            kind: "sweep (bounded-exhaustive enumeration)",
            exhaustive: self.exhaustive,
            planned: self.n,
            stats,
            failure: first.map(|(_, c, f)| (serde_json::to_value(&c).unwrap_or(Value::Null), f)),
            wall_s: t0.elapsed().as_secs_f64(),
        }
    }

    fn replay(&self, case: &Value) -> Result<Verdict, String> {
        let case: T = serde_json::from_value(case.clone()).map_err(|e| format!("cannot decode case: {e}"))?;
        let mut stats = Stats::default();
        Ok(eval(self.oracle, &case, &mut stats))
    }
}

/// A leg over a fixed list of cases (self-tests, regression corpus, probes of known findings).
pub struct ListLeg<T: 'static> {
    pub name: &'static str,
    pub cases: Vec<T>,
    pub oracle: Oracle<T>,
}

impl<T: CaseT + Sync> Leg for ListLeg<T> {
    fn name(&self) -> &str {
        self.name
    }
    fn run(&self, env: &RunEnv, _leg_index: u64) -> LegOutcome {
        let t0 = Instant::now();
        let mut stats = Stats::default();
        let mut failure = None;
        let slot = env.watch.slot(0);
        for case in &self.cases {
            slot.begin(case);
            let v = eval(self.oracle, case, &mut stats);
            slot.end();
            stats.after_case(case, 2);
            if let Err(f) = triage(env, &mut stats, v) {
                failure = Some((serde_json::to_value(case).unwrap_or(Value::Null), f));
                break;
            }
        }
        LegOutcome {
            name: self.name.to_string(),
            kind: "fixed list (regression / probe inputs)",
            exhaustive: false,
            planned: self.cases.len() as u64,
            stats,
            failure,
            wall_s: t0.elapsed().as_secs_f64(),
        }
    }
    fn replay(&self, case: &Value) -> Result<Verdict, String> {
        let case: T = serde_json::from_value(case.clone()).map_err(|e| format!("cannot decode case: {e}"))?;
        let mut stats = Stats::default();
        Ok(eval(self.oracle, &case, &mut stats))
    }
}

// ---------------------------------------------------------------------------------------------
// watchdog: keeps the harness from hanging; never a correctness oracle except for C01
// ---------------------------------------------------------------------------------------------

type Render = Box<dyn Fn() -> Value + Send>;

pub struct Slot {
    inner: Mutex<Option<(Instant, Render)>>,
}

impl Slot {
    fn begin<T: CaseT>(&self, case: &T) {
        let c = case.clone();
        let mut g = self.inner.lock().unwrap();
        *g = Some((Instant::now(), Box::new(move || serde_json::to_value(&c).unwrap_or(Value::Null))));
    }
    fn end(&self) {
        let mut g = self.inner.lock().unwrap();
        *g = None;
    }
}

pub struct Watch {
    slots: Vec<Slot>,
    pub leg: Mutex<String>,
}

impl Watch {
    pub fn new() -> Arc<Watch> {
        Arc::new(Watch {
            slots: (0..WORKERS as usize + 1).map(|_| Slot { inner: Mutex::new(None) }).collect(),
            leg: Mutex::new(String::new()),
        })
    }
    fn slot(&self, i: usize) -> &Slot {
        &self.slots[i.min(self.slots.len() - 1)]
    }
    /// (seconds, case) of the longest-running current case
    pub fn longest(&self) -> Option<(f64, Value)> {
        let mut m: Option<(f64, Value)> = None;
        for s in &self.slots {
            if let Some((t, r)) = &*s.inner.lock().unwrap() {
                let e = t.elapsed().as_secs_f64();
                if m.as_ref().map(|x| e > x.0).unwrap_or(true) {
                    m = Some((e, if e > 1.0 { r() } else { Value::Null }));
                }
            }
        }
        m
    }
}

// ---------------------------------------------------------------------------------------------
// check driver
// ---------------------------------------------------------------------------------------------

pub struct Check {
    pub property: &'static str,
    /// how cases are generated / enumerated and what makes one non-trivial
    pub rule: &'static str,
    pub assumptions: Vec<&'static str>,
    pub legs: Vec<Box<dyn Leg>>,
}

pub fn seed_from_env() -> u64 {
    std::env::var("VERIF_SEED").ok().and_then(|s| s.trim().parse::<i64>().ok()).map(|v| v as u64).unwrap_or(0)
}

fn write_replay(property: &str, leg: &str, case: &Value, f: &Failure) -> String {
    let dir = format!("{}/replays", verif_root());
    let _ = std::fs::create_dir_all(&dir);
    let body = json!({
        "property": property,
        "leg": leg,
        "case": case,
        "failure": { "signature": f.signature, "detail": f.detail },
    });
    let text = serde_json::to_string_pretty(&body).unwrap();
    let mut h = DefaultHasher::new();
    text.hash(&mut h);
    let path = format!("{dir}/{property}-{:016x}.json", h.finish());
    let _ = std::fs::write(&path, text);
    path
}

/// Runs a check; returns the process exit code.
pub fn run_check(check: &Check, tier: Tier, seed: u64) -> i32 {
    let t0 = Instant::now();
    let watch = Watch::new();
    let env = RunEnv { property: check.property, tier, seed, known: Known::load(), watch: watch.clone() };

    // watchdog thread: keeps the harness from hanging. Time is never a correctness oracle, except
    // that for C01 (termination is the property) a case that also stalls in a fresh subprocess is
    // reported as the violation it is.
    if std::env::var("VERIF_NO_WATCHDOG").is_err() {
        let watch = watch.clone();
        let prop = check.property;
        let limit = if prop == "C01" { 6.0 } else { 30.0 };
        std::thread::spawn(move || loop {
            std::thread::sleep(std::time::Duration::from_millis(250));
            if let Some((l, case)) = watch.longest() {
                if l > limit {
                    let leg = watch.leg.lock().unwrap().clone();
                    let f = Failure::new(format!("hang:{leg}"), format!("one case ran for more than {limit} s"));
                    let path = write_replay(prop, &leg, &case, &f);
                    eprintln!("WATCHDOG property={prop} leg={leg}: a case has been running for {l:.0} s; saved as {path}");
                    if prop == "C01" {
                        let exe = std::env::current_exe().unwrap();
                        let mut child = std::process::Command::new(exe)
                            .args([prop, "--replay", &path])
                            .env("VERIF_NO_WATCHDOG", "1")
                            .stdout(std::process::Stdio::null())
                            .stderr(std::process::Stdio::null())
                            .spawn()
                            .expect("spawn replay child");
                        let t = Instant::now();
                        loop {
                            match child.try_wait() {
                                Ok(Some(_)) => {
                                    eprintln!("the case finished in a fresh process: inconclusive (exit 2)");
                                    std::process::exit(2);
                                }
                                _ => {}
                            }
                            if t.elapsed().as_secs_f64() > 15.0 {
                                let _ = child.kill();
                                println!("VIOLATION property={prop} replay={path}");
                                std::process::exit(1);
                            }
                            std::thread::sleep(std::time::Duration::from_millis(100));
                        }
                    }
                    eprintln!("inconclusive (exit 2)");
                    std::process::exit(2);
                }
            }
        });
    }

    let mut outcomes = Vec::new();
    let mut violation: Option<(String, Value, Failure)> = None;
    // the regression corpus first: saved (shrunk) failing cases of earlier defects and of the seeded
    // changes of the sensitivity runs, re-run through the oracle of the leg that found them
    {
        let t = Instant::now();
        let mut stats = Stats::default();
        let mut failure = None;
        let mut planned = 0u64;
        for (name, leg_name, case) in regress_cases(check.property) {
            planned += 1;
            let leg = match check.legs.iter().find(|l| l.name() == leg_name) {
                Some(l) => l,
                None => {
                    eprintln!("regression case {name} names leg {leg_name:?}, which check {} does not have: skipped", check.property);
                    continue;
                }
            };
            match leg.replay(&case) {
                Err(e) => eprintln!("regression case {name}: {e}: skipped"),
                Ok(v) => {
                    stats.evaluations += 1;
                    stats.label(&format!("leg:{leg_name}"));
                    if let Err(f) = triage(&env, &mut stats, v) {
                        failure = Some((case, f, leg_name));
                        break;
                    }
                }
            }
        }
        if planned > 0 {
            eprintln!("[{}] leg {:<28} {:>10} cases  (saved regression inputs)  {:6.1}s{}", check.property, "regress-corpus", stats.evaluations, t.elapsed().as_secs_f64(), if failure.is_some() { "  FAILED" } else { "" });
            let mut o = LegOutcome { name: "regress-corpus".into(), kind: "fixed list (saved failing inputs of earlier defects and seeded changes)", exhaustive: false, planned, stats, failure: None, wall_s: t.elapsed().as_secs_f64() };
            if let Some((case, f, leg_name)) = failure {
                // the replay file must name the real leg so that --replay finds the oracle
                violation = Some((leg_name, case.clone(), f.clone()));
                o.failure = Some((case, f));
            }
            outcomes.push(o);
        }
    }
    for (i, leg) in check.legs.iter().enumerate() {
        if violation.is_some() {
            break;
        }
        *watch.leg.lock().unwrap() = leg.name().to_string();
        let o = leg.run(&env, i as u64);
        eprintln!(
            "[{}] leg {:<28} {:>10} cases  {:>9} distinct non-trivial  {:6.1}s{}",
            check.property,
            o.name,
            o.stats.evaluations,
            o.stats.hashes.len(),
            o.wall_s,
            if o.failure.is_some() { "  FAILED" } else { "" }
        );
        if let Some((case, f)) = &o.failure {
            violation = Some((o.name.clone(), case.clone(), f.clone()));
        }
        outcomes.push(o);
        if violation.is_some() {
            break;
        }
    }

    // totals
    let mut evaluations = 0u64;
    let mut distinct = 0u64;
    let mut samples: Vec<Value> = Vec::new();
    let mut legs_json = Vec::new();
    let mut known_hits: BTreeMap<String, (u64, String)> = BTreeMap::new();
    let mut cap = false;
    let mut all_exhaustive = !outcomes.is_empty();
    for o in &outcomes {
        evaluations += o.stats.evaluations;
        distinct += o.stats.hashes.len() as u64;
        cap |= o.stats.hash_cap_hit;
        all_exhaustive &= o.exhaustive;
        for s in &o.stats.samples {
            if samples.len() < 16 {
                samples.push(json!({ "leg": o.name, "case": s }));
            }
        }
        for (k, (n, d)) in &o.stats.known {
            let e = known_hits.entry(k.clone()).or_insert((0, d.clone()));
            e.0 += n;
        }
        legs_json.push(json!({
            "leg": o.name,
            "kind": o.kind,
            "exhaustive": o.exhaustive,
            "planned": o.planned,
            "evaluations": o.stats.evaluations,
            "nontrivial": o.stats.nontrivial_total,
            "distinct_nontrivial": o.stats.hashes.len(),
            "classes": o.stats.classes,
            "wall_s": (o.wall_s * 1000.0).round() / 1000.0,
        }));
    }
    if samples.is_empty() {
        samples.push(json!("no non-trivial case was generated in this run"));
    }

    for ((p, sig), desc) in &env.known.findings {
        if p == check.property {
            if let Some((n, d)) = known_hits.get(sig) {
                println!("KNOWN-FINDING: property={p} signature={sig} {desc} [hit {n} times this run; e.g. {}]", one_line(d, 200));
            }
        }
    }

    let mut replay_path = None;
    if let Some((leg, case, f)) = &violation {
        let path = write_replay(check.property, leg, case, f);
        eprintln!("--- violation of {} in leg {leg}", check.property);
        eprintln!("signature: {}", f.signature);
        eprintln!("detail:    {}", one_line(&f.detail, 2000));
        eprintln!("case:      {}", one_line(&case.to_string(), 2000));
        replay_path = Some(path);
    }

    let wall = t0.elapsed().as_secs_f64();
    let rule = format!(
        "{}{}",
        check.rule,
        if cap { " [distinct counting capped per leg: distinct_nontrivial is a lower bound]" } else { "" }
    );
    let evidence = json!({
        "property_id": check.property,
        "tier": tier.name(),
        "seed": seed as i64,
        "level": "exploration",
        "coverage": {
            "evaluations": evaluations,
            "distinct_nontrivial": distinct,
            "rule": rule,
            "samples": samples,
            "exhaustive": all_exhaustive,
            "legs": legs_json,
            "known_findings_hit": known_hits.iter().map(|(k, (n, _))| json!({"signature": k, "hits": n})).collect::<Vec<_>>(),
            "workers": WORKERS,
        },
        "assumptions": check.assumptions,
        "wall_s": (wall * 1000.0).round() / 1000.0,
        "violations": if violation.is_some() { 1 } else { 0 },
    });
    let dir = format!("{}/evidence", verif_root());
    let _ = std::fs::create_dir_all(&dir);
    let path = format!("{dir}/{}.json", check.property);
    if let Err(e) = std::fs::write(&path, serde_json::to_string_pretty(&evidence).unwrap() + "\n") {
        eprintln!("cannot write evidence {path}: {e}");
        return 2;
    }

    match replay_path {
        Some(p) => {
            println!("VIOLATION property={} replay={}", check.property, p);
            1
        }
        None => {
            println!(
                "OK property={} tier={} seed={} evaluations={} distinct_nontrivial={} wall_s={:.1}",
                check.property,
                tier.name(),
                seed,
                evaluations,
                distinct,
                wall
            );
            0
        }
    }
}

pub fn one_line(s: &str, max: usize) -> String {
    let s: String = s.chars().map(|c| if c == '\n' { ' ' } else { c }).collect();
    if s.chars().count() > max {
        format!("{}…", s.chars().take(max).collect::<String>())
    } else {
        s
    }
}

/// Re-run exactly one saved case through the oracle of its leg, bypassing proptest.
pub fn replay_file(check: &Check, path: &str) -> i32 {
    let text = match std::fs::read_to_string(path) {
        Ok(t) => t,
        Err(e) => {
            eprintln!("cannot read {path}: {e}");
            return 2;
        }
    };
    let v: Value = match serde_json::from_str(&text) {
        Ok(v) => v,
        Err(e) => {
            eprintln!("cannot parse {path}: {e}");
            return 2;
        }
    };
    let leg_name = v.get("leg").and_then(|l| l.as_str()).unwrap_or("");
    let case = v.get("case").cloned().unwrap_or(Value::Null);
    let known = Known::load();
    for leg in &check.legs {
        if leg.name() == leg_name {
            return match leg.replay(&case) {
                Err(e) => {
                    eprintln!("{e}");
                    2
                }
                Ok(Ok(())) => {
                    println!("OK property={} replay of {} holds", check.property, path);
                    0
                }
                Ok(Err(f)) => {
                    if known.is_known(check.property, &f.signature) {
                        println!(
                            "KNOWN-FINDING: property={} signature={} {}",
                            check.property,
                            f.signature,
                            known.findings[&(check.property.to_string(), f.signature.clone())]
                        );
                        return 0;
                    }
                    eprintln!("signature: {}", f.signature);
                    eprintln!("detail:    {}", one_line(&f.detail, 4000));
                    println!("VIOLATION property={} replay={}", check.property, path);
                    1
                }
            };
        }
    }
    eprintln!("replay file names leg {leg_name:?}, which check {} does not have", check.property);
    2
}

/// Hex-rendered byte string (the case type of the parser-side legs).
#[derive(Clone, Debug, PartialEq, Eq, Hash)]
pub struct Bytes(pub Vec<u8>);

impl Serialize for Bytes {
    fn serialize<S: serde::Serializer>(&self, s: S) -> Result<S::Ok, S::Error> {
        s.serialize_str(&crate::model::hex(&self.0))
    }
}

impl<'de> serde::Deserialize<'de> for Bytes {
    fn deserialize<D: serde::Deserializer<'de>>(d: D) -> Result<Self, D::Error> {
        let s = String::deserialize(d)?;
        crate::model::unhex(&s).map(Bytes).ok_or_else(|| serde::de::Error::custom("bad hex"))
    }
}

pub fn boxed<T: std::fmt::Debug + 'static>(s: impl Strategy<Value = T> + 'static) -> BoxedStrategy<T> {
    s.boxed()
}

/// Add the statistics of a libFuzzer campaign (written by fuzz/campaign.sh as JSON) to the evidence
/// file that the PBT part of the same thorough run has just written.
pub fn merge_fuzz_evidence(property: &str, stats_path: &str) -> i32 {
    let path = format!("{}/evidence/{property}.json", verif_root());
    let read = |p: &str| -> Option<Value> { serde_json::from_str(&std::fs::read_to_string(p).ok()?).ok() };
    let (mut ev, st) = match (read(&path), read(stats_path)) {
        (Some(e), Some(s)) => (e, s),
        _ => {
            eprintln!("cannot read {path} or {stats_path}");
            return 2;
        }
    };
    let execs = st.get("execs").and_then(|v| v.as_u64()).unwrap_or(0);
    let wall = st.get("wall_s").and_then(|v| v.as_f64()).unwrap_or(0.0);
    if let Some(c) = ev.get_mut("coverage").and_then(|c| c.as_object_mut()) {
        let e = c.get("evaluations").and_then(|v| v.as_u64()).unwrap_or(0);
        c.insert("evaluations".into(), json!(e + execs));
        c.insert("evaluations_pbt_and_sweeps".into(), json!(e));
        c.insert("fuzz_campaigns".into(), st.clone());
    }
    let w = ev.get("wall_s").and_then(|v| v.as_f64()).unwrap_or(0.0);
    ev["wall_s"] = json!(((w + wall) * 1000.0).round() / 1000.0);
    match std::fs::write(&path, serde_json::to_string_pretty(&ev).unwrap() + "\n") {
        Ok(()) => 0,
        Err(e) => {
            eprintln!("cannot write {path}: {e}");
            2
        }
    }
}


/// (file name, leg, case) of every saved regression input of a property: corpus/regress/<id>-*.json
pub fn regress_cases(property: &str) -> Vec<(String, String, Value)> {
    let dir = format!("{}/corpus/regress", verif_root());
    let mut names: Vec<std::path::PathBuf> = match std::fs::read_dir(&dir) {
        Ok(r) => r.filter_map(|e| e.ok()).map(|e| e.path()).collect(),
        Err(_) => return Vec::new(),
    };
    names.sort();
    let mut out = Vec::new();
    for p in names {
        let name = p.file_name().and_then(|n| n.to_str()).unwrap_or("").to_string();
        if !name.starts_with(&format!("{property}-")) || !name.ends_with(".json") {
            continue;
        }
        let v: Value = match std::fs::read_to_string(&p).ok().and_then(|t| serde_json::from_str(&t).ok()) {
            Some(v) => v,
            None => continue,
        };
        let leg = v.get("leg").and_then(|l| l.as_str()).unwrap_or("").to_string();
        out.push((name, leg, v.get("case").cloned().unwrap_or(Value::Null)));
    }
    out
}
