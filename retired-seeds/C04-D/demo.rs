use rtcp_types::prelude::*;
use rtcp_types::{Bye, Compound, Packet};

fn build(b: &impl RtcpPacketWriter) -> Vec<u8> {
    let size = b.calculate_size().unwrap();
    let mut buf = vec![0u8; size];
    let written = b.write_into(&mut buf).unwrap();
    assert_eq!(written, size);
    buf
}

/// A padded BYE that carries no reason text must parse back.
#[test]
fn bye_padding_without_reason_round_trips() {
    for n_sources in [0usize, 1, 2, 31] {
        for padding in [4u8, 8, 252] {
            let mut b = Bye::builder().padding(padding);
            for i in 0..n_sources {
                b = b.add_source(0x1000_0000 + i as u32);
            }
            let bytes = build(&b);
            let bye = Bye::parse(&bytes)
                .unwrap_or_else(|e| panic!("sources={n_sources} padding={padding}: {e:?}"));
            assert_eq!(bye.count() as usize, n_sources);
            assert_eq!(
                bye.ssrcs().collect::<Vec<_>>(),
                (0..n_sources)
                    .map(|i| 0x1000_0000 + i as u32)
                    .collect::<Vec<_>>()
            );
            assert_eq!(bye.reason(), None);
            assert_eq!(bye.padding(), Some(padding));
        }
    }
}

/// Same thing as the last packet of a compound.
#[test]
fn bye_padding_without_reason_in_compound() {
    let b = Compound::builder()
        .add_packet(rtcp_types::ReceiverReport::builder(0x1234567))
        .add_packet(Bye::builder().add_source(0x1234567).padding(4));
    let bytes = build(&b);
    let mut compound = Compound::parse(&bytes).unwrap();
    assert!(matches!(compound.next(), Some(Ok(Packet::Rr(_)))));
    match compound.next() {
        Some(Ok(Packet::Bye(bye))) => {
            assert_eq!(bye.padding(), Some(4));
            assert_eq!(bye.reason(), None);
        }
        other => panic!("unexpected {other:?}"),
    }
}

/// Control: padded BYE *with* a reason, every alignment residue.
#[test]
fn bye_padding_with_reason_round_trips() {
    for reason_len in [1usize, 2, 3, 4, 5, 254, 255] {
        let reason = "r".repeat(reason_len);
        let b = Bye::builder().add_source(9).reason(&reason).padding(8);
        let bytes = build(&b);
        let bye = Bye::parse(&bytes).unwrap();
        assert_eq!(bye.reason(), Some(reason.as_bytes()));
        assert_eq!(bye.padding(), Some(8));
    }
}
